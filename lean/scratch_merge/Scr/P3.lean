import Scr.P2

namespace AGV.Lemmas.ExecStaticMerge
open AGV.Core AGV.Model.ExecStatic AGV.Lemmas.ExecStatic AGV.Lemmas.ExecStaticData
open AGV.Spec.Exec (mapIdx)

-- ------------------------------------------------------------------ lists, item by item

/-- what `complete` / `resolve_list` make of the item results -/
def lstVal (l : List (Option GValue)) : Option GValue :=
  if l.all (·.isSome) then some (.list (l.filterMap id)) else some .null

inductive Rel3 (R : Option GValue → Option GValue → Option GValue → Prop) :
    List (Option GValue) → List (Option GValue) → List (Option GValue) → Prop
  | nil : Rel3 R [] [] []
  | cons {x y z xs ys zs} : R x y z → Rel3 R xs ys zs → Rel3 R (x :: xs) (y :: ys) (z :: zs)

theorem mapIdx_rel3 {α} (R : Option GValue → Option GValue → Option GValue → Prop)
    (f g h : Nat → α → Option GValue) (xs : List α) (H : ∀ i, ∀ x ∈ xs, R (f i x) (g i x) (h i x)) :
    ∀ i, Rel3 R (mapIdx f xs i) (mapIdx g xs i) (mapIdx h xs i) := by
  induction xs with
  | nil => intro i; exact Rel3.nil
  | cons x xs ih =>
    intro i
    exact Rel3.cons (H i x (by simp)) (ih (fun j y hy => H j y (by simp [hy])) (i + 1))

theorem rel3_lists (M : Nat) (xs ys zs : List (Option GValue)) (h : Rel3 (Rel M) xs ys zs) :
    zs.all (·.isSome) = (xs.all (·.isSome) && ys.all (·.isSome)) ∧
    (xs.all (·.isSome) = true → ys.all (·.isSome) = true →
      zs.filterMap id = zipMerge (merge false M) (xs.filterMap id) (ys.filterMap id)) := by
  induction h with
  | nil => simp [zipMerge]
  | @cons x y z xs ys zs hr _ ih =>
    obtain ⟨i1, i2⟩ := ih
    obtain ⟨hz, _⟩ := hr
    subst hz
    refine ⟨?_, ?_⟩
    · simp only [List.all_cons, i1, mergeO_isSome]
      cases x.isSome <;> cases y.isSome <;> simp
    · intro hx hy
      simp only [List.all_cons, Bool.and_eq_true] at hx hy
      cases x with
      | none => simp at hx
      | some a =>
        cases y with
        | none => simp at hy
        | some b =>
          simp only [mergeO, List.filterMap_cons, id, zipMerge, i2 hx.2 hy.2]

theorem lstVal_rel (M : Nat) (xs ys zs : List (Option GValue)) (h : Rel3 (Rel M) xs ys zs) :
    Rel (M + 1) (lstVal xs) (lstVal ys) (lstVal zs) := by
  obtain ⟨h1, h2⟩ := rel3_lists M xs ys zs h
  unfold lstVal
  rw [h1]
  cases hx : xs.all (·.isSome) with
  | false =>
    simp only [Bool.false_and, Bool.false_eq_true, if_false]
    refine ⟨?_, fun _ => Or.inr rfl⟩
    split <;> simp [mergeO, merge_null_left]
  | true =>
    cases hy : ys.all (·.isSome) with
    | false =>
      simp only [Bool.and_false, Bool.false_eq_true, if_false, if_true]
      exact ⟨by simp [mergeO, merge_list_null], fun _ => Or.inr rfl⟩
    | true =>
      simp only [Bool.and_true, if_true]
      refine ⟨?_, fun hc => by simp at hc⟩
      simp [mergeO, merge_list_list, h2 hx hy]

-- ------------------------------------------------------------------ objects, key by key

/-- the object (or the propagating error) made of per-key results -/
def seqObj (ks : List String) (x : String → Option GValue) : Option GValue :=
  if ks.all (fun k => (x k).isSome) then some (.obj (ks.filterMap (fun k => (x k).map (fun v => (k, v))))) else none

theorem filterMap_of_some (ks : List String) (x : String → Option GValue) (xv : String → GValue)
    (h : ∀ k ∈ ks, x k = some (xv k)) :
    ks.filterMap (fun k => (x k).map (fun v => (k, v))) = ks.map (fun k => (k, xv k)) := by
  induction ks with
  | nil => rfl
  | cons k ks ih =>
    simp only [List.filterMap_cons, h k (by simp), Option.map_some, List.map_cons]
    rw [ih (fun k' hk' => h k' (by simp [hk']))]

theorem insertKV_keys_mem (f : GValue → GValue → GValue) (ks : List String) (v : String → GValue) (k : String) (w : GValue)
    (hk : k ∈ ks) :
    insertKV f (ks.map (fun k' => (k', v k'))) k w = ks.map (fun k' => (k', if k' = k then f (v k') w else v k')) := by
  unfold insertKV
  have : (ks.map (fun k' => (k', v k'))).any (fun p => decide (p.1 = k)) = true := by
    simp only [List.any_map, List.any_eq_true, Function.comp, decide_eq_true_eq]
    exact ⟨k, hk, rfl⟩
  rw [if_pos this, List.map_map]
  apply List.map_congr_left
  intro k' _
  by_cases e : k' = k <;> simp [e]

theorem snoc_ind {α} {P : List α → Prop} (h0 : P []) (h1 : ∀ l a, P l → P (l ++ [a])) (l : List α) : P l := by
  have : ∀ r : List α, P r.reverse := by
    intro r
    induction r with
    | nil => simpa
    | cons a r ih => rw [List.reverse_cons]; exact h1 _ _ ih
  simpa using this l.reverse

/-- folding `insert_value` over the entries of a second object: keys of the first object keep their
    place (merged when the second object has them too), new keys are appended in order -/
theorem foldl_insertKV_objs (f : GValue → GValue → GValue) (Ka : List String) (xv yv : String → GValue) (Kb : List String)
    (hb : Kb.Nodup) :
    (Kb.map (fun k => (k, yv k))).foldl (fun m p => insertKV f m p.1 p.2) (Ka.map (fun k => (k, xv k))) =
      Ka.map (fun k => (k, if k ∈ Kb then f (xv k) (yv k) else xv k)) ++
        (Kb.filter (fun k => decide (k ∉ Ka))).map (fun k => (k, yv k)) := by
  induction Kb using snoc_ind with
  | h0 => simp
  | h1 Kb k ih =>
    have hnd : Kb.Nodup ∧ k ∉ Kb := by
      rw [List.nodup_append] at hb
      exact ⟨hb.1, fun hm => hb.2.2 k hm k (by simp) rfl⟩
    rw [List.map_append, List.foldl_append, ih hnd.1]
    simp only [List.map_cons, List.map_nil, List.foldl_cons, List.foldl_nil]
    by_cases hka : k ∈ Ka
    · -- merged into the existing entry
      have hfil : (Kb ++ [k]).filter (fun k => decide (k ∉ Ka)) = Kb.filter (fun k => decide (k ∉ Ka)) := by
        simp [List.filter_append, hka]
      rw [hfil]
      unfold insertKV
      have hany : (Ka.map (fun k' => (k', if k' ∈ Kb then f (xv k') (yv k') else xv k')) ++
          (Kb.filter (fun k => decide (k ∉ Ka))).map (fun k => (k, yv k))).any (fun p => decide (p.1 = k)) = true := by
        simp only [List.any_append, List.any_map, Bool.or_eq_true, List.any_eq_true, Function.comp, decide_eq_true_eq]
        exact Or.inl ⟨k, hka, rfl⟩
      rw [if_pos hany, List.map_append, List.map_map, List.map_map]
      congr 1
      · apply List.map_congr_left
        intro k' _
        by_cases e : k' = k
        · subst e; simp [hnd.2]
        · simp [e]
      · apply List.map_congr_left
        intro k' hk'
        have : ¬ k' = k := by
          intro e; subst e
          exact hnd.2 (List.mem_filter.1 hk').1
        simp [this]
    · have hfil : (Kb ++ [k]).filter (fun k => decide (k ∉ Ka)) = Kb.filter (fun k => decide (k ∉ Ka)) ++ [k] := by
        simp [List.filter_append, hka]
      rw [hfil]
      unfold insertKV
      have hany : (Ka.map (fun k' => (k', if k' ∈ Kb then f (xv k') (yv k') else xv k')) ++
          (Kb.filter (fun k => decide (k ∉ Ka))).map (fun k => (k, yv k))).any (fun p => decide (p.1 = k)) = false := by
        rw [Bool.eq_false_iff]
        intro hc
        simp only [List.any_append, List.any_map, Bool.or_eq_true, List.any_eq_true, Function.comp, decide_eq_true_eq] at hc
        rcases hc with ⟨k', hk', e⟩ | ⟨k', hk', e⟩
        · subst e; exact hka hk'
        · subst e; exact hnd.2 (List.mem_filter.1 hk').1
      rw [hany]
      simp only [Bool.false_eq_true, if_false, List.map_append, List.map_cons, List.map_nil, List.append_assoc]
      congr 1
      apply List.map_congr_left
      intro k' hk'
      have : ¬ k' = k := by intro e; subst e; exact hka hk'
      simp [this]

theorem seqObj_merge (N : Nat) (Ka Kb : List String) (hb : Kb.Nodup) (x y z : String → Option GValue)
    (h1 : ∀ k ∈ Ka, k ∈ Kb → z k = mergeO N (x k) (y k))
    (h2 : ∀ k ∈ Ka, k ∉ Kb → z k = x k)
    (h3 : ∀ k ∈ Kb, k ∉ Ka → z k = y k) :
    seqObj (Ka ++ Kb.filter (fun k => decide (k ∉ Ka))) z = mergeO (N + 1) (seqObj Ka x) (seqObj Kb y) := by
  by_cases hx : ∀ k ∈ Ka, (x k).isSome = true
  · by_cases hy : ∀ k ∈ Kb, (y k).isSome = true
    · -- both objects exist
      have hxa : Ka.all (fun k => (x k).isSome) = true := by simpa [List.all_eq_true] using hx
      have hyb : Kb.all (fun k => (y k).isSome) = true := by simpa [List.all_eq_true] using hy
      let xv : String → GValue := fun k => (x k).getD .null
      let yv : String → GValue := fun k => (y k).getD .null
      have hxv : ∀ k ∈ Ka, x k = some (xv k) := by
        intro k hk; have := hx k hk; cases h : x k <;> simp_all [xv]
      have hyv : ∀ k ∈ Kb, y k = some (yv k) := by
        intro k hk; have := hy k hk; cases h : y k <;> simp_all [yv]
      let zv : String → GValue := fun k => if k ∈ Ka then (if k ∈ Kb then merge false N (xv k) (yv k) else xv k) else yv k
      have hzv : ∀ k ∈ Ka ++ Kb.filter (fun k => decide (k ∉ Ka)), z k = some (zv k) := by
        intro k hk
        simp only [List.mem_append, List.mem_filter, decide_eq_true_eq] at hk
        by_cases hka : k ∈ Ka
        · by_cases hkb : k ∈ Kb
          · rw [h1 k hka hkb, hxv k hka, hyv k hkb]; simp [mergeO, zv, hka, hkb]
          · rw [h2 k hka hkb, hxv k hka]; simp [zv, hka, hkb]
        · rcases hk with hk | hk
          · exact absurd hk hka
          · rw [h3 k hk.1 hka, hyv k hk.1]; simp [zv, hka]
      have hza : (Ka ++ Kb.filter (fun k => decide (k ∉ Ka))).all (fun k => (z k).isSome) = true := by
        rw [List.all_eq_true]; intro k hk; rw [hzv k hk]; rfl
      unfold seqObj
      rw [if_pos hxa, if_pos hyb, if_pos hza, filterMap_of_some _ x xv hxv, filterMap_of_some _ y yv hyv,
        filterMap_of_some _ z zv hzv]
      simp only [mergeO, merge_obj_obj, Option.some.injEq, GValue.obj.injEq]
      rw [foldl_insertKV_objs _ Ka xv yv Kb hb, List.map_append]
      congr 1
      · apply List.map_congr_left
        intro k hk
        simp [zv, hk]
      · apply List.map_congr_left
        intro k hk
        have := (List.mem_filter.1 hk).2
        simp only [decide_eq_true_eq] at this
        simp [zv, this]
    · -- the second object does not exist
      have hyb : Kb.all (fun k => (y k).isSome) = false := by
        rw [Bool.eq_false_iff]; intro hc; exact hy (by simpa [List.all_eq_true] using hc)
      have : ∃ k ∈ Kb, y k = none := by
        obtain ⟨k, hk, hn⟩ := List.all_eq_false.1 hyb
        exact ⟨k, hk, by cases h : y k <;> simp_all⟩
      obtain ⟨k, hk, hn⟩ := this
      have hzk : z k = none := by
        by_cases hka : k ∈ Ka
        · rw [h1 k hka hk, hn, mergeO_none_right]
        · rw [h3 k hk hka, hn]
      have hza : (Ka ++ Kb.filter (fun k => decide (k ∉ Ka))).all (fun k => (z k).isSome) = false := by
        rw [Bool.eq_false_iff]; intro hc
        rw [List.all_eq_true] at hc
        have hmem : k ∈ Ka ++ Kb.filter (fun k => decide (k ∉ Ka)) := by
          simp only [List.mem_append, List.mem_filter, decide_eq_true_eq]
          by_cases hka : k ∈ Ka
          · exact Or.inl hka
          · exact Or.inr ⟨hk, hka⟩
        have := hc k hmem
        rw [hzk] at this; simp at this
      unfold seqObj
      rw [hza, hyb]
      simp [mergeO_none_right]
  · have hxa : Ka.all (fun k => (x k).isSome) = false := by
      rw [Bool.eq_false_iff]; intro hc; exact hx (by simpa [List.all_eq_true] using hc)
    have : ∃ k ∈ Ka, x k = none := by
      obtain ⟨k, hk, hn⟩ := List.all_eq_false.1 hxa
      exact ⟨k, hk, by cases h : x k <;> simp_all⟩
    obtain ⟨k, hk, hn⟩ := this
    have hzk : z k = none := by
      by_cases hkb : k ∈ Kb
      · rw [h1 k hk hkb, hn, mergeO_none_left]
      · rw [h2 k hk hkb, hn]
    have hza : (Ka ++ Kb.filter (fun k => decide (k ∉ Ka))).all (fun k => (z k).isSome) = false := by
      rw [Bool.eq_false_iff]; intro hc
      rw [List.all_eq_true] at hc
      have := hc k (by simp [hk])
      rw [hzk] at this; simp at this
    unfold seqObj
    rw [hza, hxa]
    simp [mergeO_none_left]

end AGV.Lemmas.ExecStaticMerge
