import Scr.P5

namespace AGV.Lemmas.ExecStaticMerge
open AGV.Core AGV.Model.ExecStatic AGV.Lemmas.ExecStatic AGV.Lemmas.ExecStaticData
open AGV.Spec.Exec (FieldOcc complete execSet group mapIdx serializeLeaf doesApply excluded argValue)

-- ------------------------------------------------------------------ CompleteValue on a union of selection sets

theorem lstVal_map (rs : List Res) :
    lstVal (rs.map (·.val)) = if rs.all (·.val.isSome) then some (.list (rs.filterMap (·.val))) else some .null := by
  simp [lstVal, List.all_map, List.filterMap_map, Function.comp_def]

theorem complete_list_val (S : Schema) (rec : String → Nat → List Sel → List PathSeg → Res) (t : TypeRef)
    (xs : List RVal) (ss : List Sel) (path : List PathSeg) (pos : Pos) :
    (complete S rec (.list t) (.list xs) ss path pos).val =
      lstVal (mapIdx (fun i x => (complete S rec t x ss (path ++ [.idx i]) pos).val) xs 0) := by
  rw [← mapIdx_map (fun r : Res => r.val), lstVal_map]
  simp only [complete]
  cases h : (mapIdx (fun i x => complete S rec t x ss (path ++ [PathSeg.idx i]) pos) xs 0).all (·.val.isSome) <;> simp

theorem serializeLeaf_scalar (S : Schema) (n : String) (v v' : GValue) (h : serializeLeaf S n v = some v') :
    isScalar v' = true := by
  unfold serializeLeaf at h
  repeat' (split at h)
  all_goals first | (simp at h; done) | (simp at h; subst h; rfl)

theorem rel_null (N : Nat) : Rel N (some .null) (some .null) (some .null) := rel_same_scalar N .null rfl

/-- CompleteValue for one resolver result against the union `A ++ B` of two selection sets is the
    `merge_value` of the completions against `A` and against `B`, provided the executor for object
    values (`rec`) has that property on `A`, `B` for the possible types -/
theorem complete_merge (S : Schema) (rec : String → Nat → List Sel → List PathSeg → Res) (A B : List Sel) (Nb : Nat)
    (n : String)
    (hobj : ∀ ty id p v, (rec ty id A p).val = some v → (∃ o, v = GValue.obj o) ∧ 1 ≤ Nb)
    (hnn : ∀ ty id p, (rec ty id B p).val ≠ some .null)
    (hmerge : ∀ ty ∈ S.possibleTypes n, ∀ id p N, Nb ≤ N →
      (rec ty id (A ++ B) p).val = mergeO N (rec ty id A p).val (rec ty id B p).val) :
    ∀ (t : TypeRef), t.base = n → ∀ (rv : RVal) (path : List PathSeg) (pa pb pab : Pos) (N : Nat), Nb + listDepth t ≤ N →
      Rel N (complete S rec t rv A path pa).val (complete S rec t rv B path pb).val
        (complete S rec t rv (A ++ B) path pab).val := by
  intro t
  induction t with
  | named m =>
    intro hm rv path pa pb pab N hN
    simp only [TypeRef.base] at hm
    subst hm
    cases rv with
    | null => simpa [complete] using rel_null N
    | fail e => simpa [complete] using rel_null N
    | list xs => simpa [complete] using rel_null N
    | arg a => simpa [complete] using rel_null N
    | leaf v =>
      simp only [complete]
      split
      · exact rel_null N
      · cases hs : serializeLeaf S m v with
        | none => exact rel_null N
        | some v' => exact rel_same_scalar N v' (serializeLeaf_scalar S m v v' hs)
    | obj ty id =>
      simp only [complete]
      by_cases hp : (S.possibleTypes m).contains ty = true
      · simp only [hp, if_true]
        have hty : ty ∈ S.possibleTypes m := by simpa using hp
        have hm' := hmerge ty hty id path N (by simp only [listDepth] at hN; omega)
        have ho := hobj ty id path
        have hn := hnn ty id path
        cases ha : (rec ty id A path).val with
        | none =>
          rw [ha, mergeO_none_left] at hm'
          rw [hm']
          cases hb : (rec ty id B path).val with
          | none => exact rel_null N
          | some vb => exact ⟨by simp [mergeO, merge_null_left], fun _ => Or.inr rfl⟩
        | some va =>
          obtain ⟨⟨o, rfl⟩, hN1⟩ := ho _ ha
          cases hb : (rec ty id B path).val with
          | none =>
            rw [ha, hb] at hm'
            rw [hm']
            dsimp only
            refine ⟨?_, fun _ => Or.inr rfl⟩
            obtain ⟨N', rfl⟩ : ∃ N', N = N' + 1 := ⟨N - 1, by simp only [listDepth] at hN; omega⟩
            simp [mergeO, merge_obj_null]
          | some vb =>
            rw [ha, hb] at hm'
            rw [hm']
            dsimp only [mergeO]
            refine ⟨rfl, fun hc => ?_⟩
            simp only [Option.some.injEq] at hc
            subst hc
            exact absurd hb hn
      · simp only [hp, Bool.false_eq_true, if_false]
        exact rel_null N
  | list t ih =>
    intro hb rv path pa pb pab N hN
    simp only [TypeRef.base] at hb
    cases rv with
    | null => simpa [complete] using rel_null N
    | fail e => simpa [complete] using rel_null N
    | obj ty id => simpa [complete] using rel_null N
    | arg a => simpa [complete] using rel_null N
    | leaf v => simpa [complete] using rel_null N
    | list xs =>
      rw [complete_list_val, complete_list_val, complete_list_val]
      obtain ⟨N', rfl⟩ : ∃ N', N = N' + 1 := ⟨N - 1, by simp only [listDepth] at hN; omega⟩
      apply lstVal_rel
      apply mapIdx_rel3
      intro i x _
      exact ih hb x _ pa pb pab N' (by simp only [listDepth] at hN; omega)
  | nonNull t ih =>
    intro hb rv path pa pb pab N hN
    simp only [TypeRef.base] at hb
    by_cases hrv : rv = .null
    · subst hrv
      simpa [complete] using rel_none N
    · obtain ⟨hz, hz2⟩ := ih hb rv path pa pb pab N (by simp only [listDepth] at hN; omega)
      obtain ⟨a1, a2⟩ := complete_nonNull_val S rec t rv A path pa hrv
      obtain ⟨b1, b2⟩ := complete_nonNull_val S rec t rv B path pb hrv
      obtain ⟨c1, c2⟩ := complete_nonNull_val S rec t rv (A ++ B) path pab hrv
      have nnNoNull : ∀ (ss : List Sel) (p : Pos), (complete S rec (.nonNull t) rv ss path p).val ≠ some .null := by
        intro ss p hc
        obtain ⟨d1, d2⟩ := complete_nonNull_val S rec t rv ss path p hrv
        by_cases hnull : (complete S rec t rv ss path p).val = some .null
        · rw [d1 hnull] at hc; simp at hc
        · rw [d2 hnull] at hc; exact hnull hc
      refine ⟨?_, fun hc => absurd hc (nnNoNull B pb)⟩
      cases hx : (complete S rec t rv A path pa).val with
      | none =>
        rw [hx, mergeO_none_left] at hz
        rw [a2 (by simp [hx]), c2 (by simp [hz]), hx, hz, mergeO_none_left]
      | some va =>
        by_cases hva : va = .null
        · subst hva
          rw [a1 hx, mergeO_none_left]
          cases hy : (complete S rec t rv B path pb).val with
          | none => rw [hx, hy, mergeO_none_right] at hz; rw [c2 (by simp [hz]), hz]
          | some vb =>
            rw [hx, hy] at hz
            simp only [mergeO, merge_null_left] at hz
            exact c1 hz
        · rw [a2 (by simp [hx, hva]), hx]
          cases hy : (complete S rec t rv B path pb).val with
          | none => rw [hx, hy, mergeO_none_right] at hz; rw [b2 (by simp [hy]), hy, c2 (by simp [hz]), hz, mergeO_none_right]
          | some vb =>
            by_cases hvb : vb = .null
            · subst hvb
              rw [b1 hy, mergeO_none_right]
              rcases hz2 hy with h | h
              · rw [c2 (by simp [h]), h]
              · exact c1 h
            · rw [b2 (by simp [hy, hvb]), hy]
              rw [hx, hy] at hz
              have hne : merge false N va vb ≠ .null := merge_ne_null _ _ _ _ hva hvb
              rw [c2 (by rw [hz]; simpa [mergeO] using hne), hz]

end AGV.Lemmas.ExecStaticMerge
