import Scr.Q2

namespace AGV.Lemmas.ExecStaticMerge
open AGV.Core AGV.Model.ExecStatic AGV.Lemmas.ExecStatic AGV.Lemmas.ExecStaticData
open AGV.Spec.Exec (FieldOcc complete execSet group mapIdx serializeLeaf doesApply excluded argValue)

-- ------------------------------------------------------------------ ExecuteSelectionSet: errors, group by group

/-- the errors the specification records for the occurrences `g` of the response key `k` -/
def gErrs (c : Model.ExecStatic.Ctx) (fuel : Nat) (rt : String) (id : Nat) (path : List PathSeg) (k : String)
    (g : List FieldOcc) : List GErr :=
  match g with
  | [] => []
  | o :: rest =>
    if o.name = "__typename" then []
    else
      match c.S.field? rt o.name with
      | none => []
      | some fd =>
        (complete c.S (execSet (sc c) fuel) fd.ty (fieldRVal c id fd o) ((o :: rest).map (·.sels)).flatten
          (path ++ [.key k]) o.pos).errs

theorem gErrs_single (c : Model.ExecStatic.Ctx) (fuel : Nat) (rt : String) (id : Nat) (path : List PathSeg) (o : FieldOcc) :
    gErrs c fuel rt id path o.key [o] = fieldErrs c fuel rt id path o := by
  by_cases ht : o.name = "__typename"
  · simp [gErrs, fieldErrs, ht]
  · cases hfd : c.S.field? rt o.name <;> simp [gErrs, fieldErrs, ht, hfd]

theorem gErrs_erase (c : Model.ExecStatic.Ctx) (fuel : Nat) (rt : String) (id : Nat) (path : List PathSeg) (k : String)
    (g : List FieldOcc) : gErrs c fuel rt id path k (g.map eraseSt) = gErrs c fuel rt id path k g := by
  cases g with
  | nil => rfl
  | cons o rest =>
    have h1 : (eraseSt o).name = o.name := rfl
    have h2 : (eraseSt o).pos = o.pos := rfl
    have h3 : ((eraseSt o :: rest.map eraseSt).map (·.sels)) = ((o :: rest).map (·.sels)) := by
      simp [eraseSt, List.map_map, Function.comp_def]
    simp only [gErrs, List.map_cons, h1, h2]
    split
    · rfl
    · cases hfd : c.S.field? rt o.name with
      | none => rfl
      | some fd =>
        simp only []
        rw [fieldRVal_congr c id fd o (eraseSt o) rfl rfl]
        simp only [List.map_cons] at h3
        rw [h3]

theorem execStep_group_errs (c : Model.ExecStatic.Ctx) (fuel : Nat) (rt : String) (id : Nat) (path : List PathSeg)
    (acc : Acc) (g : String × List FieldOcc) :
    (execStep (sc c) fuel rt id path acc g).2.1 = acc.2.1 ++ gErrs c fuel rt id path g.1 g.2 := by
  obtain ⟨k, l⟩ := g
  cases l with
  | nil => simp [execStep, gErrs]
  | cons o rest =>
    by_cases ht : o.name = "__typename"
    · simp [execStep, gErrs, ht]
    · cases hfd : c.S.field? rt o.name with
      | none => simp [execStep, gErrs, ht, hfd]
      | some fd =>
        have hrv : specRVal (sc c) id fd o = fieldRVal c id fd o := rfl
        cases hv : (complete c.S (execSet (sc c) fuel) fd.ty (fieldRVal c id fd o) ((o :: rest).map (·.sels)).flatten
            (path ++ [.key k]) o.pos).val with
        | none =>
          simp only [List.map_cons, List.flatten_cons] at hv
          simp [execStep, gErrs, ht, hfd, hrv, hv]
        | some v =>
          simp only [List.map_cons, List.flatten_cons] at hv
          simp [execStep, gErrs, ht, hfd, hrv, hv]

theorem execStep_fold_group_errs (c : Model.ExecStatic.Ctx) (fuel : Nat) (rt : String) (id : Nat) (path : List PathSeg)
    (gs : List (String × List FieldOcc)) :
    ∀ acc : Acc,
      (gs.foldl (execStep (sc c) fuel rt id path) acc).2.1 =
        acc.2.1 ++ (gs.map (fun g => gErrs c fuel rt id path g.1 g.2)).flatten := by
  induction gs with
  | nil => intro acc; simp
  | cons g gs ih =>
    intro acc
    simp only [List.foldl_cons, List.map_cons, List.flatten_cons]
    rw [ih, execStep_group_errs, List.append_assoc]

theorem ite_errs (b : Bool) (a1 a2 : Res) : (if b = true then a1 else a2).errs = if b = true then a1.errs else a2.errs := by
  cases b <;> rfl

/-- a selection set that gives up has recorded an error (unless the recursion depth is exhausted) -/
theorem execSet_none_errs (c : AGV.Spec.Exec.Ctx) (f : Nat) (rt : String) (id : Nat) (s : List Sel) (p : List PathSeg)
    (h : (execSet c (f + 1) rt id s p).val = none) : (execSet c (f + 1) rt id s p).errs ≠ [] := by
  rw [execSet_succ] at h ⊢
  simp only [ite_val, ite_errs] at h ⊢
  have inv : ∀ (gs : List (String × List FieldOcc)) (acc : Acc), (acc.2.2.2 = true → acc.2.1 ≠ []) →
      ((gs.foldl (execStep c f rt id p) acc).2.2.2 = true → (gs.foldl (execStep c f rt id p) acc).2.1 ≠ []) := by
    intro gs
    induction gs with
    | nil => intro acc h; exact h
    | cons g gs ih =>
      intro acc hacc
      simp only [List.foldl_cons]
      apply ih
      unfold execStep
      split
      · exact hacc
      · split
        · exact hacc
        · split
          · exact hacc
          · rename_i fd _
            simp only []
            split
            · intro hf
              have := hacc hf
              simp [this]
            · rename_i hnone
              intro _
              have := complete_none_errs _ _ _ _ _ _ _ hnone
              simp [this]
  have key := inv (group (AGV.Spec.Exec.collect c rt (f + 1) s []).1) ([], [], [], false) (by simp)
  split at h
  · rename_i hflag
    have := key hflag
    split <;> exact this
  · simp at h

end AGV.Lemmas.ExecStaticMerge
