import AGV.Lemmas.ExecStaticMergeExec

namespace AGV.Lemmas.ExecStaticMerge
open AGV.Core AGV.Model.ExecStatic AGV.Lemmas.ExecStatic AGV.Lemmas.ExecStaticData
open AGV.Spec.Exec (FieldOcc complete execSet group mapIdx serializeLeaf doesApply excluded argValue)

-- ------------------------------------------------------------------ error lists compared by response path

/-- every error of `E1` has the response path of an error of `E2` (locations may differ: the executor
    reports a failing field once per occurrence, each with the location of that occurrence) -/
def PathSub (E1 E2 : List GErr) : Prop := ∀ e ∈ E1, ∃ e' ∈ E2, e'.path = e.path

theorem PathSub.refl (E : List GErr) : PathSub E E := fun e he => ⟨e, he, rfl⟩

theorem PathSub.trans {E1 E2 E3 : List GErr} (h1 : PathSub E1 E2) (h2 : PathSub E2 E3) : PathSub E1 E3 := by
  intro e he
  obtain ⟨e', he', p'⟩ := h1 e he
  obtain ⟨e'', he'', p''⟩ := h2 e' he'
  exact ⟨e'', he'', p''.trans p'⟩

theorem PathSub.nil (E : List GErr) : PathSub [] E := fun e he => by simp at he

theorem PathSub.of_nil {E : List GErr} (h : PathSub E []) : E = [] := by
  cases E with
  | nil => rfl
  | cons e es => obtain ⟨e', he', _⟩ := h e (by simp); simp at he'

theorem PathSub.single (p : List PathSeg) (a b : Pos) : PathSub [⟨p, a⟩] [⟨p, b⟩] := by
  intro e he
  simp only [List.mem_singleton] at he
  subst he
  exact ⟨⟨p, b⟩, by simp, rfl⟩

theorem PathSub.of_mem {E1 E2 : List GErr} (h : ∀ e ∈ E1, e ∈ E2) : PathSub E1 E2 := fun e he => ⟨e, h e he, rfl⟩

theorem PathSub.append {A B C D : List GErr} (h1 : PathSub A C) (h2 : PathSub B D) : PathSub (A ++ B) (C ++ D) := by
  intro e he
  simp only [List.mem_append] at he
  rcases he with he | he
  · obtain ⟨e', he', p⟩ := h1 e he; exact ⟨e', by simp [he'], p⟩
  · obtain ⟨e', he', p⟩ := h2 e he; exact ⟨e', by simp [he'], p⟩

theorem PathSub.flatten_of {L : List (List GErr)} {E : List GErr} (h : ∀ l ∈ L, PathSub l E) : PathSub L.flatten E := by
  intro e he
  simp only [List.mem_flatten] at he
  obtain ⟨l, hl, hel⟩ := he
  exact h l hl e hel

theorem PathSub.to_flatten {l : List GErr} {L : List (List GErr)} {l' : List GErr} (hm : l' ∈ L) (h : PathSub l l') :
    PathSub l L.flatten := by
  intro e he
  obtain ⟨e', he', p⟩ := h e he
  exact ⟨e', by simp only [List.mem_flatten]; exact ⟨l', hm, he'⟩, p⟩

theorem mapIdx_pathSub {α} (f g : Nat → α → List GErr) (xs : List α) (H : ∀ i, ∀ x ∈ xs, PathSub (f i x) (g i x)) :
    ∀ i, PathSub (mapIdx f xs i).flatten (mapIdx g xs i).flatten := by
  induction xs with
  | nil => intro i; exact PathSub.nil _
  | cons x xs ih =>
    intro i
    simp only [mapIdx, List.flatten_cons]
    exact PathSub.append (H i x (by simp)) (ih (fun j y hy => H j y (by simp [hy])) (i + 1))

-- ------------------------------------------------------------------ CompleteValue: errors

theorem complete_nullable_some (S : Schema) (rec : String → Nat → List Sel → List PathSeg → Res) (t : TypeRef)
    (ht : t.isNonNull = false) (rv : RVal) (ss : List Sel) (path : List PathSeg) (pos : Pos) :
    (complete S rec t rv ss path pos).val.isSome = true := by
  cases t with
  | nonNull t => simp [TypeRef.isNonNull] at ht
  | named n =>
    cases rv <;> simp [complete]
    · split
      · rfl
      · split <;> rfl
    · split
      · split <;> rfl
      · rfl
  | list t =>
    cases rv <;> simp [complete]
    split <;> rfl

/-- the three cases of completion against `t!` (for a resolver result other than `null`) -/
theorem complete_nonNull_errs3 (S : Schema) (rec : String → Nat → List Sel → List PathSeg → Res)
    (t : TypeRef) (rv : RVal) (ss : List Sel) (path : List PathSeg) (pos : Pos) (h : rv ≠ .null) :
    ((complete S rec t rv ss path pos).val = some .null → (complete S rec t rv ss path pos).errs = [] →
      (complete S rec (.nonNull t) rv ss path pos).errs = [⟨path, pos⟩]) ∧
    ((complete S rec t rv ss path pos).val = some .null → (complete S rec t rv ss path pos).errs ≠ [] →
      (complete S rec (.nonNull t) rv ss path pos).errs = (complete S rec t rv ss path pos).errs) ∧
    ((complete S rec t rv ss path pos).val ≠ some .null →
      (complete S rec (.nonNull t) rv ss path pos).errs = (complete S rec t rv ss path pos).errs) := by
  obtain ⟨a, b⟩ := complete_nonNull_errs S rec t rv ss path pos h
  refine ⟨?_, a, b⟩
  intro hv he
  cases rv <;> simp_all [complete]

theorem complete_none_errs (S : Schema) (rec : String → Nat → List Sel → List PathSeg → Res) :
    ∀ (t : TypeRef) (rv : RVal) (ss : List Sel) (path : List PathSeg) (pos : Pos),
      (complete S rec t rv ss path pos).val = none → (complete S rec t rv ss path pos).errs ≠ [] := by
  intro t
  induction t with
  | named n =>
    intro rv ss path pos h
    have := complete_nullable_some S rec (.named n) rfl rv ss path pos
    rw [h] at this; simp at this
  | list t _ =>
    intro rv ss path pos h
    have := complete_nullable_some S rec (.list t) rfl rv ss path pos
    rw [h] at this; simp at this
  | nonNull t ih =>
    intro rv ss path pos h
    by_cases hrv : rv = .null
    · subst hrv; simp [complete]
    · obtain ⟨e1, e2, e3⟩ := complete_nonNull_errs3 S rec t rv ss path pos hrv
      obtain ⟨v1, v2⟩ := complete_nonNull_val S rec t rv ss path pos hrv
      by_cases hnull : (complete S rec t rv ss path pos).val = some .null
      · by_cases hemp : (complete S rec t rv ss path pos).errs = []
        · rw [e1 hnull hemp]; simp
        · rw [e2 hnull hemp]; exact hemp
      · rw [e3 hnull]
        rw [v2 hnull] at h
        exact ih rv ss path pos h

end AGV.Lemmas.ExecStaticMerge
