import Scr.P8

namespace AGV.Lemmas.ExecStaticMerge
open AGV.Core AGV.Model.ExecStatic AGV.Lemmas.ExecStatic AGV.Lemmas.ExecStaticData
open AGV.Spec.Exec (FieldOcc complete execSet group mapIdx serializeLeaf doesApply excluded argValue)

-- ------------------------------------------------------------------ all occurrences of one key

def mergeAllO (N : Nat) : List (Option GValue) → Option GValue
  | [] => none
  | x :: xs => xs.foldl (mergeO N) x

theorem mergeAllO_snoc (N : Nat) (x : Option GValue) (xs : List (Option GValue)) (y : Option GValue) :
    mergeAllO N ((x :: xs) ++ [y]) = mergeO N (mergeAllO N (x :: xs)) y := by
  simp [mergeAllO, List.foldl_append]

theorem foldl_mergeO_none (N : Nat) (xs : List (Option GValue)) : xs.foldl (mergeO N) none = none := by
  induction xs with
  | nil => rfl
  | cons y ys ih => simp [List.foldl_cons, mergeO_none_left, ih]

theorem foldl_mergeO_of_none (N : Nat) (xs : List (Option GValue)) (h : none ∈ xs) : ∀ x, xs.foldl (mergeO N) x = none := by
  induction xs with
  | nil => simp at h
  | cons y ys ih =>
    intro x
    simp only [List.mem_cons] at h
    rcases h with h | h
    · subst h; simp [List.foldl_cons, mergeO_none_right, foldl_mergeO_none]
    · simp only [List.foldl_cons]; exact ih h _

theorem mergeAllO_of_none (N : Nat) (l : List (Option GValue)) (h : none ∈ l) : mergeAllO N l = none := by
  cases l with
  | nil => rfl
  | cons x xs =>
    simp only [List.mem_cons] at h
    rcases h with h | h
    · subst h; simp [mergeAllO, foldl_mergeO_none]
    · exact foldl_mergeO_of_none N xs h x

theorem foldl_mergeO_some (N : Nat) (vs : List GValue) : ∀ v : GValue,
    (vs.map some).foldl (mergeO N) (some v) = some (vs.foldl (merge false N) v) := by
  induction vs with
  | nil => intro v; rfl
  | cons w ws ih => intro v; simp only [List.map_cons, List.foldl_cons, mergeO]; exact ih _

theorem mergeAllO_some (N : Nat) (vs : List GValue) (h : vs ≠ []) :
    mergeAllO N (vs.map some) = some (mergeAll (merge false N) vs) := by
  cases vs with
  | nil => exact absurd rfl h
  | cons v ws => exact foldl_mergeO_some N ws v

/-- the specification's value for a key with several occurrences is the left fold of `merge_value` over the
    values of the single occurrences (each executed on its own sub-selections) -/
theorem gVal_nary (c : Model.ExecStatic.Ctx) (H : DataHyps c) (f : Nat) (rt : String) (id : Nat)
    (path : List PathSeg) (k : String) (o0 : FieldOcc) (N : Nat) (hN : 4 * f + 3 ≤ N) :
    ∀ (rest : List FieldOcc),
      (∀ o ∈ o0 :: rest, o.key = k) →
      (∀ o' ∈ rest, o'.name = o0.name ∧ o'.args = o0.args) →
      (o0.name = "__typename" ∨ ∃ fd, c.S.field? rt o0.name = some fd ∧ (rest = [] ∨ listDepth fd.ty ≤ 3) ∧
        ∀ ty ∈ c.S.possibleTypes fd.ty.base, MKP c f fd.ty.base ty ((o0 :: rest).map (·.sels)).flatten) →
      (∀ o ∈ o0 :: rest, selsInert c.vars o.sels = true) →
      gVal c f rt id path k (o0 :: rest) = mergeAllO N ((o0 :: rest).map (fieldVal c f rt id path)) := by
  intro rest
  induction rest using snoc_ind with
  | h0 =>
    intro hk _ _ _
    have := hk o0 (by simp)
    subst this
    simp [mergeAllO, gVal_single]
  | h1 r o ih =>
    intro hk hsame hfield hin
    have hko : o.key = k := hk o (by simp)
    have hstep := gVal_merge c H f (execSet_merge c H f) rt id path k o0 r o [] hsame hfield
      (fun x hx => hin x (by simp only [List.mem_cons, List.mem_append] at hx ⊢; rcases hx with h | h; exact Or.inl h; exact Or.inr (Or.inl h)))
      (fun x hx => hin x (by simp only [List.mem_cons, List.mem_append, List.not_mem_nil, or_false] at hx ⊢; exact Or.inr (Or.inr hx)))
      N hN
    have hfield' : o0.name = "__typename" ∨ ∃ fd, c.S.field? rt o0.name = some fd ∧ (r = [] ∨ listDepth fd.ty ≤ 3) ∧
        ∀ ty ∈ c.S.possibleTypes fd.ty.base, MKP c f fd.ty.base ty ((o0 :: r).map (·.sels)).flatten := by
      rcases hfield with h | ⟨fd, hfd, hld, hrec⟩
      · exact Or.inl h
      · refine Or.inr ⟨fd, hfd, ?_, ?_⟩
        · rcases hld with h | h
          · simp at h
          · exact Or.inr h
        · intro ty hty
          have := hrec ty hty
          rw [← List.cons_append, List.map_append, List.flatten_append] at this
          exact (mkp_split c f _ _ _ _ this).1
    have ih' := ih (fun x hx => hk x (by simp only [List.mem_cons, List.mem_append] at hx ⊢; rcases hx with h | h; exact Or.inl h; exact Or.inr (Or.inl h)))
      (fun x hx => hsame x (by simp [hx])) hfield'
      (fun x hx => hin x (by simp only [List.mem_cons, List.mem_append] at hx ⊢; rcases hx with h | h; exact Or.inl h; exact Or.inr (Or.inl h)))
    rw [← List.cons_append, hstep, ih', List.map_append, List.map_cons, List.map_cons, List.map_nil, mergeAllO_snoc,
      ← hko, gVal_single]

end AGV.Lemmas.ExecStaticMerge
