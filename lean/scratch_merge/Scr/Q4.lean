import Scr.Q3

namespace AGV.Lemmas.ExecStaticMerge
open AGV.Core AGV.Model.ExecStatic AGV.Lemmas.ExecStatic AGV.Lemmas.ExecStaticData
open AGV.Spec.Exec (FieldOcc complete execSet group mapIdx serializeLeaf doesApply excluded argValue)

/-- the errors of ExecuteSelectionSet, key by key in order of first occurrence -/
theorem execSet_errs_char (c : Model.ExecStatic.Ctx) (H : DataHyps c) (fuel : Nat) (st rt : String) (id : Nat)
    (sels : List Sel) (path : List PathSeg) (hrt : IsObj c.S rt) (hst : doesApply c.S rt st = true)
    (hin : selsInert c.vars sels = true) (hnd : (spreads c.d (fuel + 1) sels).Nodup) :
    (execSet (sc c) (fuel + 1) rt id sels path).errs =
      ((dedup ((Model.ExecStatic.collect c rt (fuel + 1) st sels).map (·.key))).map
        (fun k => gErrs c fuel rt id path k ((Model.ExecStatic.collect c rt (fuel + 1) st sels).filter (fun o => decide (o.key = k))))).flatten := by
  have hcol := (collect_agree c H.noDefect H.schema rt hrt H.frags (fuel + 1) st sels [] hst hin hnd
    (by intro n _; simp)).1
  generalize Model.ExecStatic.collect c rt (fuel + 1) st sels = O at *
  rw [execSet_succ, hcol, group_char]
  have hkeys : (O.map eraseSt).map (·.key) = O.map (·.key) := by
    rw [List.map_map]; rfl
  have hfilt : ∀ k, (O.map eraseSt).filter (fun o => decide (o.key = k)) = (O.filter (fun o => decide (o.key = k))).map eraseSt := by
    intro k
    rw [List.filter_map]
    rfl
  rw [hkeys]
  simp only [ite_errs]
  rw [execStep_fold_group_errs]
  simp only [List.nil_append, List.map_map, Function.comp_def, hfilt, gErrs_erase, ite_self]

theorem execSet_quiet (c : AGV.Spec.Exec.Ctx) (f : Nat) (ty : String) (id : Nat) (ss ss' : List Sel) (p : List PathSeg)
    (h1 : (execSet c f ty id ss p).val = none) (h2 : (execSet c f ty id ss p).errs = []) :
    (execSet c f ty id ss' p).val = none ∧ (execSet c f ty id ss' p).errs = [] := by
  cases f with
  | zero => simp [execSet]
  | succ f => exact absurd h2 (execSet_none_errs c f ty id ss p h1)

/-- the induction hypothesis on fuel of `execSet_errs_mono` -/
def ExecErrMono (c : Model.ExecStatic.Ctx) (f : Nat) : Prop :=
  ∀ (st rt : String) (id : Nat) (a b : List Sel) (path : List PathSeg),
    IsObj c.S rt → doesApply c.S rt st = true → selsInert c.vars a = true → selsInert c.vars b = true →
    MKP c f st rt (a ++ b) →
    PathSub (execSet (sc c) f rt id a path).errs (execSet (sc c) f rt id (a ++ b) path).errs ∧
    PathSub (execSet (sc c) f rt id b path).errs (execSet (sc c) f rt id (a ++ b) path).errs

/-- errors of a sub-group `G` of the occurrences `o0 :: rest` of one key are (by path) errors of the whole group -/
theorem gErrs_mono (c : Model.ExecStatic.Ctx) (H : DataHyps c) (f : Nat) (IH : ExecErrMono c f) (rt : String) (id : Nat)
    (path : List PathSeg) (k : String) (o0 : FieldOcc) (rest : List FieldOcc)
    (hsame : ∀ o' ∈ rest, o'.name = o0.name ∧ o'.args = o0.args)
    (hfield : o0.name = "__typename" ∨ ∃ fd, c.S.field? rt o0.name = some fd ∧
        ∀ ty ∈ c.S.possibleTypes fd.ty.base, MKP c f fd.ty.base ty ((o0 :: rest).map (·.sels)).flatten)
    (hin : ∀ o ∈ o0 :: rest, selsInert c.vars o.sels = true)
    (pre G post : List FieldOcc) (hsplit : o0 :: rest = pre ++ G ++ post) :
    PathSub (gErrs c f rt id path k G) (gErrs c f rt id path k (o0 :: rest)) := by
  cases G with
  | nil => exact PathSub.nil _
  | cons oG restG =>
    have hmemG : ∀ o ∈ oG :: restG, o ∈ o0 :: rest := by
      intro o ho; rw [hsplit]; simp only [List.mem_append]; exact Or.inl (Or.inr ho)
    have hoG : oG.name = o0.name ∧ oG.args = o0.args := by
      have := hmemG oG (by simp)
      simp only [List.mem_cons] at this
      rcases this with rfl | hm
      · exact ⟨rfl, rfl⟩
      · exact hsame oG hm
    by_cases ht : o0.name = "__typename"
    · have : oG.name = "__typename" := hoG.1.trans ht
      simp only [gErrs, this, if_true]
      exact PathSub.nil _
    · rcases hfield with h | ⟨fd, hfd, hrec⟩
      · exact absurd h ht
      · have ht' : ¬ oG.name = "__typename" := by rw [hoG.1]; exact ht
        have hfd' : c.S.field? rt oG.name = some fd := by rw [hoG.1]; exact hfd
        have hrv : fieldRVal c id fd oG = fieldRVal c id fd o0 := fieldRVal_congr c id fd o0 oG hoG.1 hoG.2
        have hflat : ((o0 :: rest).map (·.sels)).flatten =
            ((pre.map (·.sels)).flatten ++ ((oG :: restG).map (·.sels)).flatten) ++ (post.map (·.sels)).flatten := by
          rw [hsplit, List.map_append, List.map_append, List.flatten_append, List.flatten_append]
        have hinL : ∀ (L : List FieldOcc), (∀ o ∈ L, o ∈ o0 :: rest) → selsInert c.vars (L.map (·.sels)).flatten = true := by
          intro L hL
          apply selsInert_flatten
          intro l hl
          simp only [List.mem_map] at hl
          obtain ⟨o, ho, rfl⟩ := hl
          exact hin o (hL o ho)
        have hinPre := hinL pre (by intro o ho; rw [hsplit]; simp only [List.mem_append]; exact Or.inl (Or.inl ho))
        have hinG := hinL (oG :: restG) hmemG
        have hinPost := hinL post (by intro o ho; rw [hsplit]; simp only [List.mem_append]; exact Or.inr ho)
        have key := complete_errs_mono c.S (execSet (sc c) f) ((oG :: restG).map (·.sels)).flatten
          ((o0 :: rest).map (·.sels)).flatten fd.ty.base
          (fun ty id' p hc => by
            obtain ⟨⟨o, ho⟩, _⟩ := execSet_val_shape _ _ _ _ _ _ _ hc
            simp at ho)
          (fun ty id' p h1 h2 => execSet_quiet _ _ _ _ _ _ _ h1 h2)
          (fun ty hty id' p => by
            obtain ⟨hobj, happ⟩ := H.schema.possible _ _ hty
            have hmk := hrec ty hty
            rw [hflat] at hmk ⊢
            have hmk1 := (mkp_split c f _ _ _ _ hmk).1
            have s1 := (IH fd.ty.base ty id' _ _ p hobj happ hinPre hinG hmk1).2
            have hinPG : selsInert c.vars ((pre.map (·.sels)).flatten ++ ((oG :: restG).map (·.sels)).flatten) = true := by
              rw [selsInert_append, hinPre, hinG]; rfl
            have s2 := (IH fd.ty.base ty id' _ _ p hobj happ hinPG hinPost hmk).1
            exact s1.trans s2)
          fd.ty rfl (fieldRVal c id fd o0) (path ++ [.key k]) oG.pos o0.pos
        have hl : gErrs c f rt id path k (oG :: restG) =
            (complete c.S (execSet (sc c) f) fd.ty (fieldRVal c id fd o0)
              ((oG :: restG).map (·.sels)).flatten (path ++ [.key k]) oG.pos).errs := by
          simp only [gErrs, ht', hfd', if_false, hrv]
        have hr : gErrs c f rt id path k (o0 :: rest) =
            (complete c.S (execSet (sc c) f) fd.ty (fieldRVal c id fd o0)
              ((o0 :: rest).map (·.sels)).flatten (path ++ [.key k]) o0.pos).errs := by
          simp only [gErrs, ht, hfd, if_false]
        rw [hl, hr]
        exact key

theorem mkp_group_weak (c : Model.ExecStatic.Ctx) (f : Nat) (st rt : String) (s : List Sel) (h : MKP c (f + 1) st rt s)
    (k : String) (hk : k ∈ (Model.ExecStatic.collect c rt (f + 1) st s).map (·.key)) :
    ∃ o0 rest, (Model.ExecStatic.collect c rt (f + 1) st s).filter (fun o => decide (o.key = k)) = o0 :: rest ∧
      (∀ o' ∈ rest, o'.name = o0.name ∧ o'.args = o0.args) ∧
      (o0.name = "__typename" ∨ ∃ fd, c.S.field? rt o0.name = some fd ∧
        ∀ ty ∈ c.S.possibleTypes fd.ty.base, MKP c f fd.ty.base ty ((o0 :: rest).map (·.sels)).flatten) := by
  obtain ⟨o0, rest, h1, h2, h3⟩ := mkp_group_of_mem c f st rt s h k hk
  refine ⟨o0, rest, h1, h2, ?_⟩
  rcases h3 with h | ⟨fd, hfd, _, hrec⟩
  · exact Or.inl h
  · exact Or.inr ⟨fd, hfd, hrec⟩

/-- the specification executes everything: its errors for a part of a selection set are (by path) among
    its errors for the whole -/
theorem execSet_errs_mono (c : Model.ExecStatic.Ctx) (H : DataHyps c) : ∀ f, ExecErrMono c f := by
  intro f
  induction f with
  | zero =>
    intro st rt id a b path _ _ _ _ _
    simp [execSet, PathSub.nil]
  | succ f ih =>
    intro st rt id a b path hrt hst hina hinb hmk
    obtain ⟨mka, mkb⟩ := mkp_split c (f + 1) st rt a b hmk
    have hinab : selsInert c.vars (a ++ b) = true := by rw [selsInert_append, hina, hinb]; rfl
    rw [execSet_errs_char c H f st rt id (a ++ b) path hrt hst hinab hmk.1,
      execSet_errs_char c H f st rt id a path hrt hst hina mka.1,
      execSet_errs_char c H f st rt id b path hrt hst hinb mkb.1]
    have hgrp := mkp_group_weak c f st rt (a ++ b) hmk
    have hinO := collect_inert c rt H.frags (f + 1) st (a ++ b) hinab
    rw [collect_append] at hgrp hinO ⊢
    generalize Model.ExecStatic.collect c rt (f + 1) st a = Oa at *
    generalize Model.ExecStatic.collect c rt (f + 1) st b = Ob at *
    -- one key of a part
    have part : ∀ (G : List FieldOcc → List FieldOcc) (k : String), k ∈ (Oa ++ Ob).map (·.key) →
        (∃ pre post, (Oa ++ Ob).filter (fun o => decide (o.key = k)) = pre ++ G (Oa ++ Ob) ++ post) →
        PathSub (gErrs c f rt id path k (G (Oa ++ Ob)))
          ((dedup ((Oa ++ Ob).map (·.key))).map
            (fun k => gErrs c f rt id path k ((Oa ++ Ob).filter (fun o => decide (o.key = k))))).flatten := by
      intro G k hk ⟨pre, post, hsp⟩
      obtain ⟨o0, rest, hfl, hsame, hfield⟩ := hgrp k hk
      apply PathSub.to_flatten (l' := gErrs c f rt id path k ((Oa ++ Ob).filter (fun o => decide (o.key = k))))
      · exact List.mem_map.2 ⟨k, (mem_dedup _ _).2 hk, rfl⟩
      · rw [hfl]
        apply gErrs_mono c H f ih rt id path k o0 rest hsame hfield ?_ pre (G (Oa ++ Ob)) post (by rw [← hfl]; exact hsp)
        intro o ho
        exact hinO o (List.mem_filter.1 (by rw [hfl]; exact ho : o ∈ (Oa ++ Ob).filter (fun o => decide (o.key = k)))).1
    constructor
    · apply PathSub.flatten_of
      intro l hl
      obtain ⟨k, hk, rfl⟩ := List.mem_map.1 hl
      rw [mem_dedup] at hk
      exact part (fun _ => Oa.filter (fun o => decide (o.key = k))) k
        (by simp only [List.map_append, List.mem_append]; exact Or.inl hk)
        ⟨[], Ob.filter (fun o => decide (o.key = k)), by simp [List.filter_append]⟩
    · apply PathSub.flatten_of
      intro l hl
      obtain ⟨k, hk, rfl⟩ := List.mem_map.1 hl
      rw [mem_dedup] at hk
      exact part (fun _ => Ob.filter (fun o => decide (o.key = k))) k
        (by simp only [List.map_append, List.mem_append]; exact Or.inr hk)
        ⟨Oa.filter (fun o => decide (o.key = k)), [], by simp [List.filter_append]⟩

end AGV.Lemmas.ExecStaticMerge
