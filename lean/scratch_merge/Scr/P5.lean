import Scr.P4

namespace AGV.Lemmas.ExecStaticMerge
open AGV.Core AGV.Model.ExecStatic AGV.Lemmas.ExecStatic AGV.Lemmas.ExecStaticData
open AGV.Spec.Exec (FieldOcc complete execSet group mapIdx serializeLeaf doesApply excluded argValue)

-- SCRATCH COPY (the real one replaces `mergeableKeys` in ExecStaticData)
def mergeableKeys' (c : Model.ExecStatic.Ctx) : Nat → String → String → List Sel → Bool
  | 0, _, _, _ => true
  | fuel + 1, st, rt, sels =>
    decide (spreads c.d (fuel + 1) sels).Nodup &&
    (AGV.Spec.Exec.group (Model.ExecStatic.collect c rt (fuel + 1) st sels)).all (fun g =>
      match g.2 with
      | [] => true
      | o :: rest =>
        rest.all (fun o' => o'.name = o.name && argsSame o'.args o.args) &&
        (o.name = "__typename" ||
          match c.S.field? rt o.name with
          | none => false
          | some fd =>
            (rest.isEmpty || decide (listDepth fd.ty ≤ 3)) &&
            (c.S.possibleTypes fd.ty.base).all (fun ty =>
              mergeableKeys' c fuel fd.ty.base ty (g.2.map (·.sels)).flatten)))

/-- `mergeableKeys` as a proposition: at every selection set reached, no fragment name is spread twice,
    and the occurrences `o :: rest` of each response key name one existing field (or `__typename`) with
    one argument list, of list depth ≤ 3 when the key repeats; recursively for the merged sub-selections -/
def MKP (c : Model.ExecStatic.Ctx) : Nat → String → String → List Sel → Prop
  | 0, _, _, _ => True
  | fuel + 1, st, rt, sels =>
    (spreads c.d (fuel + 1) sels).Nodup ∧
    ∀ g ∈ AGV.Spec.Exec.group (Model.ExecStatic.collect c rt (fuel + 1) st sels), ∀ o rest, g.2 = o :: rest →
      (∀ o' ∈ rest, o'.name = o.name ∧ o'.args = o.args) ∧
      (o.name = "__typename" ∨ ∃ fd, c.S.field? rt o.name = some fd ∧ (rest = [] ∨ listDepth fd.ty ≤ 3) ∧
        ∀ ty ∈ c.S.possibleTypes fd.ty.base, MKP c fuel fd.ty.base ty ((o :: rest).map (·.sels)).flatten)

theorem mkp_of_mergeableKeys (c : Model.ExecStatic.Ctx) :
    ∀ (fuel : Nat) (st rt : String) (sels : List Sel), mergeableKeys' c fuel st rt sels = true → MKP c fuel st rt sels := by
  intro fuel
  induction fuel with
  | zero => intro st rt sels _; trivial
  | succ fuel ih =>
    intro st rt sels h
    simp only [mergeableKeys', Bool.and_eq_true, decide_eq_true_eq, List.all_eq_true] at h
    refine ⟨h.1, ?_⟩
    intro g hg o rest hgo
    have hg' := h.2 g hg
    rw [hgo] at hg'
    simp only [Bool.and_eq_true, List.all_eq_true, decide_eq_true_eq, Bool.or_eq_true] at hg'
    refine ⟨fun o' ho' => ⟨(hg'.1 o' ho').1, argsSame_eq _ _ (hg'.1 o' ho').2⟩, ?_⟩
    rcases hg'.2 with ht | hf
    · exact Or.inl ht
    · right
      cases hfd : c.S.field? rt o.name with
      | none => rw [hfd] at hf; simp at hf
      | some fd =>
        rw [hfd] at hf
        simp only [Bool.and_eq_true, Bool.or_eq_true, List.isEmpty_iff, decide_eq_true_eq, List.all_eq_true] at hf
        exact ⟨fd, rfl, hf.1, fun ty hty => ih _ _ _ (hf.2 ty hty)⟩

theorem spreads_append (d : Doc) (fuel : Nat) (a b : List Sel) :
    spreads d fuel (a ++ b) = spreads d fuel a ++ spreads d fuel b := by
  cases fuel with
  | zero => simp [spreads]
  | succ fuel => simp [spreads]

theorem selsInert_append (vars : List (String × GValue)) (a b : List Sel) :
    selsInert vars (a ++ b) = (selsInert vars a && selsInert vars b) := by
  induction a with
  | nil => simp [selsInert]
  | cons x xs ih => simp [selsInert, ih, Bool.and_assoc]

theorem selsInert_flatten (vars : List (String × GValue)) (ls : List (List Sel)) (h : ∀ l ∈ ls, selsInert vars l = true) :
    selsInert vars ls.flatten = true := by
  induction ls with
  | nil => simp [selsInert]
  | cons l ls ih =>
    rw [List.flatten_cons, selsInert_append, h l (by simp), ih (fun l' hl' => h l' (by simp [hl']))]
    rfl

/-- membership in `group`, by key -/
theorem mem_group (occs : List FieldOcc) (g : String × List FieldOcc) :
    g ∈ group occs ↔ g.1 ∈ occs.map (·.key) ∧ g.2 = occs.filter (fun o => decide (o.key = g.1)) := by
  rw [group_char]
  simp only [List.mem_map, mem_dedup]
  constructor
  · rintro ⟨k, ⟨o, ho, rfl⟩, rfl⟩
    exact ⟨⟨o, ho, rfl⟩, rfl⟩
  · rintro ⟨⟨o, ho, e⟩, h2⟩
    refine ⟨g.1, ⟨o, ho, e⟩, ?_⟩
    rw [← h2]

theorem filter_key_ne_nil (occs : List FieldOcc) (k : String) (h : k ∈ occs.map (·.key)) :
    occs.filter (fun o => decide (o.key = k)) ≠ [] := by
  simp only [List.mem_map] at h
  obtain ⟨o, ho, e⟩ := h
  intro hc
  rw [List.filter_eq_nil_iff] at hc
  exact hc o ho (by simpa using e)

/-- mergeability of a union of selection sets gives mergeability of the parts -/
theorem mkp_split (c : Model.ExecStatic.Ctx) :
    ∀ (fuel : Nat) (st rt : String) (a b : List Sel), MKP c fuel st rt (a ++ b) → MKP c fuel st rt a ∧ MKP c fuel st rt b := by
  intro fuel
  induction fuel with
  | zero => intro st rt a b _; exact ⟨trivial, trivial⟩
  | succ fuel ih =>
    intro st rt a b h
    obtain ⟨hsp, hg⟩ := h
    rw [spreads_append, List.nodup_append] at hsp
    rw [collect_append] at hg
    -- the merged group of a key
    have key : ∀ k, k ∈ (Model.ExecStatic.collect c rt (fuel + 1) st a ++ Model.ExecStatic.collect c rt (fuel + 1) st b).map (·.key) →
        ∀ o rest, (Model.ExecStatic.collect c rt (fuel + 1) st a).filter (fun o => decide (o.key = k)) ++
          (Model.ExecStatic.collect c rt (fuel + 1) st b).filter (fun o => decide (o.key = k)) = o :: rest → _ :=
      fun k hk o rest hgo => hg (k, _) ((mem_group _ _).2 ⟨hk, by simp [List.filter_append]⟩) o rest hgo
    refine ⟨⟨hsp.1, ?_⟩, ⟨hsp.2.1, ?_⟩⟩
    · intro g hgm o rest hgo
      obtain ⟨hk, hg2⟩ := (mem_group _ _).1 hgm
      rw [hgo] at hg2
      have := key g.1 (by simp only [List.map_append, List.mem_append]; exact Or.inl hk) o
        (rest ++ (Model.ExecStatic.collect c rt (fuel + 1) st b).filter (fun o => decide (o.key = g.1)))
        (by rw [← hg2]; rfl)
      obtain ⟨h1, h2⟩ := this
      refine ⟨fun o' ho' => h1 o' (by simp [ho']), ?_⟩
      rcases h2 with ht | ⟨fd, hfd, hld, hrec⟩
      · exact Or.inl ht
      · refine Or.inr ⟨fd, hfd, ?_, ?_⟩
        · rcases hld with he | hl
          · left
            have := congrArg List.length he
            simp only [List.length_append, List.length_nil] at this
            exact List.eq_nil_of_length_eq_zero (by omega)
          · exact Or.inr hl
        · intro ty hty
          have := hrec ty hty
          rw [← List.cons_append, List.map_append, List.flatten_append] at this
          exact (ih _ _ _ _ this).1
    · intro g hgm ob restb hgo
      obtain ⟨hk, hg2⟩ := (mem_group _ _).1 hgm
      rw [hgo] at hg2
      cases hfa : (Model.ExecStatic.collect c rt (fuel + 1) st a).filter (fun o => decide (o.key = g.1)) with
      | nil =>
        have := key g.1 (by simp only [List.map_append, List.mem_append]; exact Or.inr hk) ob restb
          (by rw [hfa, ← hg2]; rfl)
        exact this
      | cons oa resta =>
        have := key g.1 (by simp only [List.map_append, List.mem_append]; exact Or.inr hk) oa (resta ++ ob :: restb)
          (by rw [hfa, ← hg2]; rfl)
        obtain ⟨h1, h2⟩ := this
        have hob := h1 ob (by simp)
        refine ⟨fun o' ho' => ?_, ?_⟩
        · have := h1 o' (by simp [ho'])
          exact ⟨this.1.trans hob.1.symm, this.2.trans hob.2.symm⟩
        · rcases h2 with ht | ⟨fd, hfd, hld, hrec⟩
          · exact Or.inl (hob.1.trans ht)
          · refine Or.inr ⟨fd, by rw [hob.1]; exact hfd, ?_, ?_⟩
            · rcases hld with he | hl
              · simp at he
              · exact Or.inr hl
            · intro ty hty
              have := hrec ty hty
              rw [← List.cons_append, List.map_append, List.flatten_append] at this
              exact (ih _ _ _ _ this).2

theorem mkp_flatten_mem (c : Model.ExecStatic.Ctx) (fuel : Nat) (st rt : String) (ls : List (List Sel))
    (h : MKP c fuel st rt ls.flatten) : ∀ l ∈ ls, MKP c fuel st rt l := by
  induction ls with
  | nil => intro l hl; simp at hl
  | cons x xs ih =>
    intro l hl
    rw [List.flatten_cons] at h
    obtain ⟨h1, h2⟩ := mkp_split c fuel st rt _ _ h
    simp only [List.mem_cons] at hl
    rcases hl with rfl | hl
    · exact h1
    · exact ih h2 l hl

end AGV.Lemmas.ExecStaticMerge
