import Scr.P6

namespace AGV.Lemmas.ExecStaticMerge
open AGV.Core AGV.Model.ExecStatic AGV.Lemmas.ExecStatic AGV.Lemmas.ExecStaticData
open AGV.Spec.Exec (FieldOcc complete execSet group mapIdx serializeLeaf doesApply excluded argValue)

-- ------------------------------------------------------------------ ExecuteSelectionSet, group by group

/-- the specification's value for the occurrences `g` of the response key `k` (one execution against
    the merged sub-selections) -/
def gVal (c : Model.ExecStatic.Ctx) (fuel : Nat) (rt : String) (id : Nat) (path : List PathSeg) (k : String)
    (g : List FieldOcc) : Option GValue :=
  match g with
  | [] => none
  | o :: rest =>
    if o.name = "__typename" then some (.str rt)
    else
      match c.S.field? rt o.name with
      | none => none
      | some fd =>
        (complete c.S (execSet (sc c) fuel) fd.ty (fieldRVal c id fd o) ((o :: rest).map (·.sels)).flatten
          (path ++ [.key k]) o.pos).val

def HasFieldG (c : Model.ExecStatic.Ctx) (rt : String) (g : List FieldOcc) : Prop :=
  ∃ o rest, g = o :: rest ∧ HasField c rt o

theorem gVal_single (c : Model.ExecStatic.Ctx) (fuel : Nat) (rt : String) (id : Nat) (path : List PathSeg) (o : FieldOcc) :
    gVal c fuel rt id path o.key [o] = fieldVal c fuel rt id path o := by
  by_cases ht : o.name = "__typename"
  · simp [gVal, fieldVal, ht]
  · cases hfd : c.S.field? rt o.name <;> simp [gVal, fieldVal, ht, hfd]

theorem fieldRVal_congr (c : Model.ExecStatic.Ctx) (id : Nat) (fd : FieldDef) (o o' : FieldOcc)
    (hn : o'.name = o.name) (ha : o'.args = o.args) : fieldRVal c id fd o' = fieldRVal c id fd o := by
  unfold fieldRVal
  rw [hn]
  have : ∀ a, argValue { S := c.S, d := c.d, vars := c.vars, w := c.w } fd o' a =
      argValue { S := c.S, d := c.d, vars := c.vars, w := c.w } fd o a := by
    intro a; simp [argValue, ha]
  split <;> simp_all

theorem gVal_erase (c : Model.ExecStatic.Ctx) (fuel : Nat) (rt : String) (id : Nat) (path : List PathSeg) (k : String)
    (g : List FieldOcc) : gVal c fuel rt id path k (g.map eraseSt) = gVal c fuel rt id path k g := by
  cases g with
  | nil => rfl
  | cons o rest =>
    have h1 : (eraseSt o).name = o.name := rfl
    have h2 : (eraseSt o).pos = o.pos := rfl
    have h3 : ((eraseSt o :: rest.map eraseSt).map (·.sels)) = ((o :: rest).map (·.sels)) := by
      simp [eraseSt, List.map_map, Function.comp_def]
    simp only [gVal, List.map_cons, h1, h2]
    split
    · rfl
    · cases hfd : c.S.field? rt o.name with
      | none => rfl
      | some fd =>
        simp only []
        rw [fieldRVal_congr c id fd o (eraseSt o) rfl rfl]
        simp only [List.map_cons] at h3
        rw [h3]

theorem execStep_group (c : Model.ExecStatic.Ctx) (fuel : Nat) (rt : String) (id : Nat) (path : List PathSeg)
    (acc : Acc) (g : String × List FieldOcc) (h : HasFieldG c rt g.2) :
    (execStep (sc c) fuel rt id path acc g).1 =
      acc.1 ++ ((gVal c fuel rt id path g.1 g.2).map (fun v => (g.1, v))).toList ∧
    (execStep (sc c) fuel rt id path acc g).2.2.2 = (acc.2.2.2 || (gVal c fuel rt id path g.1 g.2).isNone) := by
  obtain ⟨k, l⟩ := g
  obtain ⟨o, rest, hg, hf⟩ := h
  simp only at hg
  subst hg
  by_cases ht : o.name = "__typename"
  · simp [execStep, gVal, ht]
  · rcases hf with hf | ⟨fd, hfd⟩
    · exact absurd hf ht
    · have hrv : specRVal (sc c) id fd o = fieldRVal c id fd o := rfl
      cases hv : (complete c.S (execSet (sc c) fuel) fd.ty (fieldRVal c id fd o) ((o :: rest).map (·.sels)).flatten
          (path ++ [.key k]) o.pos).val with
      | none =>
        simp only [List.map_cons, List.flatten_cons] at hv
        simp [execStep, gVal, ht, hfd, hrv, hv]
      | some v =>
        simp only [List.map_cons, List.flatten_cons] at hv
        simp [execStep, gVal, ht, hfd, hrv, hv]

theorem execStep_fold_groups (c : Model.ExecStatic.Ctx) (fuel : Nat) (rt : String) (id : Nat) (path : List PathSeg)
    (gs : List (String × List FieldOcc)) (h : ∀ g ∈ gs, HasFieldG c rt g.2) :
    ∀ acc : Acc,
      (gs.foldl (execStep (sc c) fuel rt id path) acc).1 =
        acc.1 ++ gs.filterMap (fun g => (gVal c fuel rt id path g.1 g.2).map (fun v => (g.1, v))) ∧
      (gs.foldl (execStep (sc c) fuel rt id path) acc).2.2.2 =
        (acc.2.2.2 || gs.any (fun g => (gVal c fuel rt id path g.1 g.2).isNone)) := by
  induction gs with
  | nil => intro acc; simp
  | cons g gs ih =>
    intro acc
    obtain ⟨s1, s2⟩ := execStep_group c fuel rt id path acc g (h g (by simp))
    obtain ⟨r1, r2⟩ := ih (fun g' hg' => h g' (by simp [hg'])) (execStep (sc c) fuel rt id path acc g)
    simp only [List.foldl_cons]
    refine ⟨?_, ?_⟩
    · rw [r1, s1]
      cases hv : gVal c fuel rt id path g.1 g.2 <;> simp [hv]
    · rw [r2, s2]
      simp [Bool.or_assoc]

theorem ite_val (b : Bool) (a1 a2 : Res) : (if b = true then a1 else a2).val = if b = true then a1.val else a2.val := by
  cases b <;> rfl

theorem any_isNone_not_all {α} (f : α → Option GValue) (l : List α) :
    l.any (fun k => (f k).isNone) = !l.all (fun k => (f k).isSome) := by
  induction l with
  | nil => simp
  | cons o os ih => cases hv : f o <;> simp [hv, ih]

/-- ExecuteSelectionSet as "one value per response key, in order of first occurrence" -/
theorem execSet_val_char (c : Model.ExecStatic.Ctx) (H : DataHyps c) (fuel : Nat) (st rt : String) (id : Nat)
    (sels : List Sel) (path : List PathSeg) (hrt : IsObj c.S rt) (hst : doesApply c.S rt st = true)
    (hin : selsInert c.vars sels = true) (hnd : (spreads c.d (fuel + 1) sels).Nodup)
    (hHF : ∀ k ∈ (Model.ExecStatic.collect c rt (fuel + 1) st sels).map (·.key),
      HasFieldG c rt ((Model.ExecStatic.collect c rt (fuel + 1) st sels).filter (fun o => decide (o.key = k)))) :
    (execSet (sc c) (fuel + 1) rt id sels path).val =
      seqObj (dedup ((Model.ExecStatic.collect c rt (fuel + 1) st sels).map (·.key)))
        (fun k => gVal c fuel rt id path k ((Model.ExecStatic.collect c rt (fuel + 1) st sels).filter (fun o => decide (o.key = k)))) := by
  have hcol := (collect_agree c H.noDefect H.schema rt hrt H.frags (fuel + 1) st sels [] hst hin hnd
    (by intro n _; simp)).1
  generalize Model.ExecStatic.collect c rt (fuel + 1) st sels = O at *
  rw [execSet_succ, hcol, group_char]
  have hkeys : (O.map eraseSt).map (·.key) = O.map (·.key) := by
    rw [List.map_map]; rfl
  have hfilt : ∀ k, (O.map eraseSt).filter (fun o => decide (o.key = k)) = (O.filter (fun o => decide (o.key = k))).map eraseSt := by
    intro k
    rw [List.filter_map]
    rfl
  rw [hkeys]
  have hG : ∀ g ∈ (dedup (O.map (·.key))).map (fun k => (k, (O.map eraseSt).filter (fun o => decide (o.key = k)))),
      HasFieldG c rt g.2 := by
    intro g hg
    simp only [List.mem_map, mem_dedup] at hg
    obtain ⟨k, hk, rfl⟩ := hg
    obtain ⟨o, rest, e, hf⟩ := hHF k (by simpa using hk)
    simp only [hfilt, e, List.map_cons]
    exact ⟨eraseSt o, rest.map eraseSt, rfl, hf⟩
  obtain ⟨f1, f2⟩ := execStep_fold_groups c fuel rt id path _ hG ([], [], [], false)
  simp only [ite_val]
  rw [f1, f2]
  simp only [List.nil_append, Bool.false_or, List.any_map, List.filterMap_map, Function.comp_def, hfilt, gVal_erase]
  unfold seqObj
  rw [any_isNone_not_all]
  cases (dedup (O.map (·.key))).all (fun k => (gVal c fuel rt id path k (O.filter (fun o => decide (o.key = k)))).isSome) <;> simp

end AGV.Lemmas.ExecStaticMerge
