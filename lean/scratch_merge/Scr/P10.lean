import Scr.P9

namespace AGV.Lemmas.ExecStaticMerge
open AGV.Core AGV.Model.ExecStatic AGV.Lemmas.ExecStatic AGV.Lemmas.ExecStaticData
open AGV.Spec.Exec (FieldOcc complete execSet group mapIdx serializeLeaf doesApply excluded argValue)

/-- what `MKP` says about the group of a collected occurrence -/
theorem mkp_group_of_mem (c : Model.ExecStatic.Ctx) (f : Nat) (st rt : String) (s : List Sel) (h : MKP c (f + 1) st rt s)
    (k : String) (hk : k ∈ (Model.ExecStatic.collect c rt (f + 1) st s).map (·.key)) :
    ∃ o0 rest, (Model.ExecStatic.collect c rt (f + 1) st s).filter (fun o => decide (o.key = k)) = o0 :: rest ∧
      (∀ o' ∈ rest, o'.name = o0.name ∧ o'.args = o0.args) ∧
      (o0.name = "__typename" ∨ ∃ fd, c.S.field? rt o0.name = some fd ∧ (rest = [] ∨ listDepth fd.ty ≤ 3) ∧
        ∀ ty ∈ c.S.possibleTypes fd.ty.base, MKP c f fd.ty.base ty ((o0 :: rest).map (·.sels)).flatten) := by
  have hne := filter_key_ne_nil _ k hk
  cases hfl : (Model.ExecStatic.collect c rt (f + 1) st s).filter (fun o => decide (o.key = k)) with
  | nil => exact absurd hfl hne
  | cons o rest =>
    have := h.2 (k, _) ((mem_group _ _).2 ⟨hk, rfl⟩) o rest hfl
    exact ⟨o, rest, rfl, this.1, this.2⟩

theorem filterMap_fieldVal (fv : FieldOcc → Option GValue) (v : FieldOcc → GValue) (O : List FieldOcc)
    (h : ∀ o ∈ O, fv o = some (v o)) :
    O.filterMap (fun o => (fv o).map (fun w => (o.key, w))) = O.map (fun o => (o.key, v o)) := by
  induction O with
  | nil => rfl
  | cons o os ih =>
    simp only [List.filterMap_cons, h o (by simp), Option.map_some, List.map_cons]
    rw [ih (fun x hx => h x (by simp [hx]))]

/-- DATA EQUALITY with repeated response keys: executing every occurrence separately and deep-merging
    the results (`resolve_container` + `insert_value`) gives the data of the specification's single
    execution of the merged selection sets -/
theorem container_val_eq_mergeable (c : Model.ExecStatic.Ctx) (H : DataHyps c) :
    ∀ (fuel : Nat) (st rt : String) (id : Nat) (sels : List Sel) (path : List PathSeg),
      IsObj c.S rt → doesApply c.S rt st = true → selsInert c.vars sels = true →
      MKP c fuel st rt sels →
      (resolveContainer c fuel st rt id sels path).val = (execSet (sc c) fuel rt id sels path).val := by
  intro fuel
  induction fuel with
  | zero => intro st rt id sels path _ _ _ _; simp [resolveContainer, execSet]
  | succ fuel ih =>
    intro st rt id sels path hrt hst hin hmk
    have hinO := collect_inert c rt H.frags (fuel + 1) st sels hin
    have hgrpO := mkp_group_of_mem c fuel st rt sels hmk
    rw [execSet_val_char c H fuel st rt id sels path hrt hst hin hmk.1 (mkp_hasFieldG c fuel st rt _ hmk)]
    simp only [resolveContainer]
    generalize hO : Model.ExecStatic.collect c rt (fuel + 1) st sels = O at *
    -- every occurrence: the group it belongs to
    have hocc : ∀ occ ∈ O, HasField c rt occ ∧ (∀ fd, occ.name ≠ "__typename" → c.S.field? rt occ.name = some fd →
        ∀ ty ∈ c.S.possibleTypes fd.ty.base, MKP c fuel fd.ty.base ty occ.sels) := by
      intro occ hoccm
      obtain ⟨o0, rest, hfl, hsame, hfield⟩ := hgrpO occ.key (List.mem_map_of_mem hoccm)
      have hmem : occ ∈ o0 :: rest := by rw [← hfl]; exact List.mem_filter.2 ⟨hoccm, by simp⟩
      have hname : occ.name = o0.name := by
        simp only [List.mem_cons] at hmem
        rcases hmem with rfl | hm
        · rfl
        · exact (hsame occ hm).1
      refine ⟨?_, ?_⟩
      · rcases hfield with h | ⟨fd, hfd, _⟩
        · exact Or.inl (hname.trans h)
        · exact Or.inr ⟨fd, by rw [hname]; exact hfd⟩
      · intro fd hnt hfd ty hty
        rcases hfield with h | ⟨fd', hfd', _, hrec⟩
        · exact absurd (hname.trans h) hnt
        · rw [hname, hfd'] at hfd
          cases hfd
          exact mkp_flatten_mem c fuel _ _ _ (hrec ty hty) occ.sels (List.mem_map_of_mem hmem)
    have hRF : ∀ occ ∈ O,
        (runField c (resolveContainer c fuel) rt id path occ).val =
          (fieldVal c fuel rt id path occ).map (fun v => GValue.obj [(occ.key, v)]) := by
      intro occ hoccm
      apply runField_val c H.noDefect H.builtins fuel rt id path occ ?_ (fun fd hfd => H.floats rt id fd occ hfd) (hocc occ hoccm).1
      intro fd hnt hfd ty id' p hty
      have hty' : ty ∈ c.S.possibleTypes fd.ty.base := by simpa using hty
      obtain ⟨hobj, happ⟩ := H.schema.possible _ _ hty'
      exact ih fd.ty.base ty id' occ.sels p hobj happ (hinO occ hoccm) ((hocc occ hoccm).2 fd hnt hfd ty hty')
    -- the specification's value of a key = fold of merge over the occurrences' values
    have hN : 4 * fuel + 3 ≤ 4 * (fuel + 1) := by omega
    have hgv : ∀ k ∈ O.map (·.key), gVal c fuel rt id path k (O.filter (fun o => decide (o.key = k))) =
        mergeAllO (4 * (fuel + 1)) ((O.filter (fun o => decide (o.key = k))).map (fieldVal c fuel rt id path)) := by
      intro k hk
      obtain ⟨o0, rest, hfl, hsame, hfield⟩ := hgrpO k hk
      rw [hfl]
      apply gVal_nary c H fuel rt id path k o0 _ hN rest ?_ hsame hfield ?_
      · intro o ho
        have := (List.mem_filter.1 (by rw [hfl]; exact ho : o ∈ O.filter (fun o => decide (o.key = k)))).2
        simpa using this
      · intro o ho
        exact hinO o (List.mem_filter.1 (by rw [hfl]; exact ho : o ∈ O.filter (fun o => decide (o.key = k)))).1
    have hall : (joinAll (O.map (fun occ => fun (_ : Unit) => runField c (resolveContainer c fuel) rt id path occ))).all (·.val.isSome) =
        O.all (fun o => (fieldVal c fuel rt id path o).isSome) := by
      rw [joinAll_all, List.all_map]
      apply all_congr_mem
      intro o ho
      simp [hRF o ho]
    rw [hall]
    cases hA : O.all (fun o => (fieldVal c fuel rt id path o).isSome) with
    | false =>
      -- some occurrence propagates an error: so does its key
      obtain ⟨o, ho, hn⟩ := List.all_eq_false.1 hA
      have hnone : fieldVal c fuel rt id path o = none := by
        cases h : fieldVal c fuel rt id path o <;> simp_all
      have hk : o.key ∈ O.map (·.key) := List.mem_map_of_mem ho
      have hgn : gVal c fuel rt id path o.key (O.filter (fun o' => decide (o'.key = o.key))) = none := by
        rw [hgv _ hk]
        apply mergeAllO_of_none
        simp only [List.mem_map]
        exact ⟨o, List.mem_filter.2 ⟨ho, by simp⟩, hnone⟩
      have : (dedup (O.map (·.key))).all (fun k => (gVal c fuel rt id path k (O.filter (fun o => decide (o.key = k)))).isSome) = false := by
        rw [List.all_eq_false]
        exact ⟨o.key, (mem_dedup _ _).2 hk, by rw [hgn]; simp⟩
      simp [seqObj, this]
    | true =>
      rw [List.all_eq_true] at hA
      let v : FieldOcc → GValue := fun o => (fieldVal c fuel rt id path o).getD .null
      have hv : ∀ o ∈ O, fieldVal c fuel rt id path o = some (v o) := by
        intro o ho
        have := hA o ho
        cases h : fieldVal c fuel rt id path o <;> simp_all [v]
      have hj := joinAll_eq_of_all (O.map (fun occ => fun (_ : Unit) => runField c (resolveContainer c fuel) rt id path occ)) (by
        rw [List.all_map, List.all_eq_true]
        intro o ho
        simp [hRF o ho, hv o ho])
      rw [hj, List.map_map]
      have hk := kvs_fold (fun occ => runField c (resolveContainer c fuel) rt id path occ) (fieldVal c fuel rt id path) O hRF
      have hcomp : ((fun f : Unit → Res => f ()) ∘ fun occ => fun (_ : Unit) => runField c (resolveContainer c fuel) rt id path occ) =
          (fun occ => runField c (resolveContainer c fuel) rt id path occ) := rfl
      have hkvs := filterMap_fieldVal (fieldVal c fuel rt id path) v O hv
      rw [hcomp, hk, hkvs, createValueObject_group, groupKV_char]
      have hD : c.D.mergeKeepsPartialOnNull = false := by rw [H.noDefect]; rfl
      rw [hD]
      have hgs : ∀ k ∈ dedup (O.map (·.key)), gVal c fuel rt id path k (O.filter (fun o => decide (o.key = k))) =
          some (mergeAll (merge false (4 * (fuel + 1))) ((O.filter (fun o => decide (o.key = k))).map v)) := by
        intro k hk'
        have hk'' := (mem_dedup _ _).1 hk'
        rw [hgv k hk'']
        have : (O.filter (fun o => decide (o.key = k))).map (fieldVal c fuel rt id path) =
            ((O.filter (fun o => decide (o.key = k))).map v).map some := by
          rw [List.map_map]
          apply List.map_congr_left
          intro o ho
          exact hv o (List.mem_filter.1 ho).1
        rw [this]
        apply mergeAllO_some
        intro hc
        exact filter_key_ne_nil O k hk'' (by simpa using hc)
      unfold seqObj
      have hall2 : (dedup (O.map (·.key))).all (fun k => (gVal c fuel rt id path k (O.filter (fun o => decide (o.key = k)))).isSome) = true := by
        rw [List.all_eq_true]
        intro k hk'
        rw [hgs k hk']; rfl
      rw [if_pos hall2, if_pos (by rfl)]
      rw [filterMap_of_some _ _ (fun k => mergeAll (merge false (4 * (fuel + 1))) ((O.filter (fun o => decide (o.key = k))).map v)) hgs]
      simp only [List.map_map, Function.comp_def, Option.some.injEq, GValue.obj.injEq]
      apply List.map_congr_left
      intro k _
      simp only [Prod.mk.injEq, true_and]
      congr 1
      rw [List.filter_map, List.map_map]
      rfl

end AGV.Lemmas.ExecStaticMerge
