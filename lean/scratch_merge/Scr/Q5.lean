import Scr.Q4

namespace AGV.Lemmas.ExecStaticMerge
open AGV.Core AGV.Model.ExecStatic AGV.Lemmas.ExecStatic AGV.Lemmas.ExecStaticData
open AGV.Spec.Exec (FieldOcc complete execSet group mapIdx serializeLeaf doesApply excluded argValue)

-- ------------------------------------------------------------------ model errors ⊆ specification errors, by path

theorem resolveValue_errs_paths (c : Model.ExecStatic.Ctx) (hD : c.D = Defects.none)
    (hb : ∀ b ∈ builtinScalars, c.S.isComposite b = false)
    (recM : String → String → Nat → List Sel → List PathSeg → Res)
    (recS : String → Nat → List Sel → List PathSeg → Res) (ss : List Sel) :
    ∀ (t : TypeRef),
      (∀ ty id p, (c.S.possibleTypes t.base).contains ty = true →
        PathSub (recM t.base ty id ss p).errs (recS ty id ss p).errs) →
      ∀ (rv : RVal) (path : List PathSeg) (pos : Pos), (t.base = "Float" → noIntLeaf rv = true) →
      PathSub (resolveValue c recM t rv ss path pos).errs (complete c.S recS t rv ss path pos).errs := by
  have hD' : c.D.nanNullInNonNull = false := by rw [hD]; rfl
  intro t
  induction t with
  | named n =>
    intro hr rv path pos hf
    cases rv with
    | null => simp [resolveValue, complete, PathSub.nil]
    | obj ty id =>
      simp only [resolveValue, complete]
      by_cases hp : (c.S.possibleTypes n).contains ty = true
      · have e := hr ty id path hp
        simp only [TypeRef.base] at e
        rw [if_pos hp, if_pos hp]
        cases (recM n ty id ss path).val <;> cases (recS ty id ss path).val <;> exact e
      · rw [if_neg hp, if_neg hp]; exact PathSub.refl _
    | leaf v =>
      simp only [resolveValue, complete]
      have hf' : n = "Float" → ∀ i, v ≠ .int i := by
        intro hn i hv
        subst hv
        have := hf hn
        simp [noIntLeaf] at this
      have key := fun v' => toValue_spec c.D hD' c.S n v v' hb hf'
      cases hc : c.S.isComposite n with
      | true =>
        simp only [if_true]
        cases htv : toValue c.D c.S n v with
        | none => exact PathSub.refl _
        | some o =>
          cases o with
          | none => exact PathSub.refl _
          | some v' => have := (key v').1 htv; simp [hc] at this
      | false =>
        simp only [Bool.false_eq_true, if_false]
        cases hs : serializeLeaf c.S n v with
        | some v' => rw [(key v').2 ⟨hc, hs⟩]; exact PathSub.refl _
        | none =>
          cases htv : toValue c.D c.S n v with
          | none => exact PathSub.refl _
          | some o =>
            cases o with
            | none => exact PathSub.refl _
            | some v' => have := (key v').1 htv; simp [hs] at this
    | list xs => simpa [resolveValue, complete] using PathSub.refl _
    | fail m => simpa [resolveValue, complete] using PathSub.refl _
    | arg a => simpa [resolveValue, complete] using PathSub.refl _
  | list t ih =>
    intro hr rv path pos hf
    cases rv with
    | null => simp [resolveValue, complete, PathSub.nil]
    | list xs =>
      have hsub : PathSub ((joinAll (mapIdx (fun i x => fun (_ : Unit) =>
            itemWrap c.D (path ++ [PathSeg.idx i]) (resolveValue c recM t x ss (path ++ [PathSeg.idx i]) pos)) xs 0)).map
            (·.errs)).flatten
          ((mapIdx (fun i x => complete c.S recS t x ss (path ++ [PathSeg.idx i]) pos) xs 0).map (·.errs)).flatten := by
        intro x hx
        simp only [List.mem_flatten, List.mem_map] at hx
        obtain ⟨l, ⟨r, hr', rfl⟩, hxl⟩ := hx
        obtain ⟨f, hf', rfl⟩ := joinAll_mem _ r hr'
        obtain ⟨j, y, hy, rfl, hm⟩ := mapIdx_mem2 _
          (fun i x => complete c.S recS t x ss (path ++ [PathSeg.idx i]) pos) xs 0 f hf'
        rw [itemWrap_none c.D hD] at hxl
        obtain ⟨e', he', hp⟩ := ih hr y _ pos (by
          intro hfl
          exact noIntLeafs_mem xs (by simpa [noIntLeaf] using hf hfl) y hy) x hxl
        refine ⟨e', ?_, hp⟩
        simp only [List.mem_flatten, List.mem_map]
        exact ⟨_, ⟨_, hm, rfl⟩, he'⟩
      simp only [resolveValue, complete]
      split <;> split <;> exact hsub
    | obj ty id => simpa [resolveValue, complete] using PathSub.refl _
    | leaf v => simpa [resolveValue, complete] using PathSub.refl _
    | fail m => simpa [resolveValue, complete] using PathSub.refl _
    | arg a => simpa [resolveValue, complete] using PathSub.refl _
  | nonNull t ih =>
    intro hr rv path pos hf
    by_cases hrv : rv = .null
    · subst hrv; simpa [resolveValue, complete] using PathSub.refl _
    · rw [resolveValue_nonNull c recM t rv ss path pos hrv, nnWrap_errs]
      have hsub := ih hr rv path pos hf
      obtain ⟨e1, e2, e3⟩ := complete_nonNull_errs3 c.S recS t rv ss path pos hrv
      by_cases hnull : (complete c.S recS t rv ss path pos).val = some .null
      · by_cases hemp : (complete c.S recS t rv ss path pos).errs = []
        · rw [hemp] at hsub
          rw [PathSub.of_nil hsub]
          exact PathSub.nil _
        · rw [e2 hnull hemp]; exact hsub
      · rw [e3 hnull]; exact hsub

theorem completeField_errs_paths (c : Model.ExecStatic.Ctx) (hD : c.D = Defects.none)
    (hb : ∀ b ∈ builtinScalars, c.S.isComposite b = false)
    (recM : String → String → Nat → List Sel → List PathSeg → Res)
    (recS : String → Nat → List Sel → List PathSeg → Res) (fd : FieldDef) (rv : RVal) (occ : FieldOcc)
    (fpath : List PathSeg)
    (hr : ∀ ty id p, (c.S.possibleTypes fd.ty.base).contains ty = true →
      PathSub (recM fd.ty.base ty id occ.sels p).errs (recS ty id occ.sels p).errs)
    (hf : fd.ty.base = "Float" → noIntLeaf rv = true) :
    PathSub (completeField c recM fd rv occ fpath).errs (complete c.S recS fd.ty rv occ.sels fpath occ.pos).errs := by
  have hres := resolveValue_errs_paths c hD hb recM recS occ.sels fd.ty hr rv fpath occ.pos hf
  cases rv with
  | fail m =>
    rw [complete_fail_errs]
    have h1 : c.D.ifaceErrNoPath = false := by rw [hD]; rfl
    simp only [completeField, h1, Bool.false_and]
    split <;> exact PathSub.refl _
  | null => simpa [completeField] using hres
  | leaf v => simpa [completeField] using hres
  | obj ty id => simpa [completeField] using hres
  | list xs => simpa [completeField] using hres
  | arg a => simpa [completeField] using hres

theorem runField_errs_paths (c : Model.ExecStatic.Ctx) (hD : c.D = Defects.none)
    (hb : ∀ b ∈ builtinScalars, c.S.isComposite b = false) (fuel : Nat) (rt : String) (id : Nat)
    (path : List PathSeg) (occ : FieldOcc)
    (hr : ∀ fd, occ.name ≠ "__typename" → c.S.field? rt occ.name = some fd →
      ∀ ty id p, (c.S.possibleTypes fd.ty.base).contains ty = true →
      PathSub (resolveContainer c fuel fd.ty.base ty id occ.sels p).errs (execSet (sc c) fuel ty id occ.sels p).errs)
    (hleaf : ∀ fd, c.S.field? rt occ.name = some fd → fd.ty.base = "Float" → noIntLeaf (fieldRVal c id fd occ) = true) :
    PathSub (runField c (resolveContainer c fuel) rt id path occ).errs (fieldErrs c fuel rt id path occ) := by
  by_cases ht : occ.name = "__typename"
  · simp [runField, ht, PathSub.nil]
  · cases hfd : c.S.field? rt occ.name with
    | none => simp [runField, ht, hfd, PathSub.nil]
    | some fd =>
      have e := completeField_errs_paths c hD hb (resolveContainer c fuel)
        (execSet (sc c) fuel) fd (fieldRVal c id fd occ) occ (path ++ [PathSeg.key occ.key]) (hr fd ht hfd) (hleaf fd hfd)
      simpa [runField, fieldErrs, ht, hfd] using e

/-- ERRORS with repeated response keys: every error of the executor model (one field future per
    occurrence) has the response path of an error of the specification's execution, as long as the
    recursion depth is not exhausted -/
theorem container_errs_paths (c : Model.ExecStatic.Ctx) (H : DataHyps c) :
    ∀ (fuel : Nat) (st rt : String) (id : Nat) (sels : List Sel) (path : List PathSeg),
      IsObj c.S rt → doesApply c.S rt st = true → selsInert c.vars sels = true →
      MKP c fuel st rt sels → deepEnough c fuel st rt sels = true →
      PathSub (resolveContainer c fuel st rt id sels path).errs (execSet (sc c) fuel rt id sels path).errs := by
  intro fuel
  induction fuel with
  | zero => intro st rt id sels path _ _ _ _ hde; simp [deepEnough] at hde
  | succ fuel ih =>
    intro st rt id sels path hrt hst hin hmk hdeep
    have hde := deepEnough_succ c fuel st rt sels hdeep
    have hinO := collect_inert c rt H.frags (fuel + 1) st sels hin
    have hgrpO := mkp_group_of_mem c fuel st rt sels hmk
    have hgrpW := mkp_group_weak c fuel st rt sels hmk
    rw [execSet_errs_char c H fuel st rt id sels path hrt hst hin hmk.1]
    simp only [resolveContainer]
    generalize hO : Model.ExecStatic.collect c rt (fuel + 1) st sels = O at *
    have hRF : ∀ occ ∈ O, PathSub (runField c (resolveContainer c fuel) rt id path occ).errs (fieldErrs c fuel rt id path occ) := by
      intro occ hoccm
      apply runField_errs_paths c H.noDefect H.builtins fuel rt id path occ ?_ (fun fd hfd => H.floats rt id fd occ hfd)
      intro fd hnt hfd ty id' p hty
      have hty' : ty ∈ c.S.possibleTypes fd.ty.base := by simpa using hty
      obtain ⟨hobj, happ⟩ := H.schema.possible _ _ hty'
      obtain ⟨o0, rest, hfl, hsame, hfield⟩ := hgrpO occ.key (List.mem_map_of_mem hoccm)
      have hmem : occ ∈ o0 :: rest := by rw [← hfl]; exact List.mem_filter.2 ⟨hoccm, by simp⟩
      have hname : occ.name = o0.name := by
        simp only [List.mem_cons] at hmem
        rcases hmem with rfl | hm
        · rfl
        · exact (hsame occ hm).1
      rcases hfield with h | ⟨fd', hfd', _, hrec⟩
      · exact absurd (hname.trans h) hnt
      · rw [hname, hfd'] at hfd
        cases hfd
        have hmk' := mkp_flatten_mem c fuel _ _ _ (hrec ty hty') occ.sels (List.mem_map_of_mem hmem)
        exact ih fd.ty.base ty id' occ.sels p hobj happ (hinO occ hoccm) hmk'
          (hde occ hoccm fd (by rw [hname]; exact hfd') ty hty')
    have hmodel : PathSub ((joinAll (O.map (fun occ => fun (_ : Unit) => runField c (resolveContainer c fuel) rt id path occ))).map (·.errs)).flatten
        ((dedup (O.map (·.key))).map (fun k => gErrs c fuel rt id path k (O.filter (fun o => decide (o.key = k))))).flatten := by
      apply PathSub.flatten_of
      intro l hl
      simp only [List.mem_map] at hl
      obtain ⟨r, hr', rfl⟩ := hl
      obtain ⟨f, hf', rfl⟩ := joinAll_mem _ r hr'
      simp only [List.mem_map] at hf'
      obtain ⟨occ, hoccm, rfl⟩ := hf'
      have hk : occ.key ∈ O.map (·.key) := List.mem_map_of_mem hoccm
      obtain ⟨o0, rest, hfl, hsame, hfield⟩ := hgrpW occ.key hk
      have hmem : occ ∈ o0 :: rest := by rw [← hfl]; exact List.mem_filter.2 ⟨hoccm, by simp⟩
      obtain ⟨pre, post, hsp⟩ := List.append_of_mem hmem
      have h1 := hRF occ hoccm
      have h2 : PathSub (fieldErrs c fuel rt id path occ) (gErrs c fuel rt id path occ.key (o0 :: rest)) := by
        rw [← gErrs_single]
        apply gErrs_mono c H fuel (execSet_errs_mono c H fuel) rt id path occ.key o0 rest hsame hfield ?_ pre [occ] post
          (by rw [hsp]; simp)
        intro o ho
        exact hinO o (List.mem_filter.1 (by rw [hfl]; exact ho : o ∈ O.filter (fun o => decide (o.key = occ.key)))).1
      apply PathSub.to_flatten (l' := gErrs c fuel rt id path occ.key (O.filter (fun o => decide (o.key = occ.key))))
      · exact List.mem_map.2 ⟨occ.key, (mem_dedup _ _).2 hk, rfl⟩
      · rw [hfl]; exact h1.trans h2
    split <;> exact hmodel

end AGV.Lemmas.ExecStaticMerge
