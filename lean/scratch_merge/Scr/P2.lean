import Scr.P1

namespace AGV.Lemmas.ExecStaticMerge
open AGV.Core AGV.Model.ExecStatic AGV.Lemmas.ExecStatic AGV.Lemmas.ExecStaticData

-- ------------------------------------------------------------------ facts about `merge_value`

theorem merge_null_left (k : Bool) (N : Nat) (b : GValue) : merge k N .null b = .null := by
  cases N <;> cases b <;> rfl

theorem merge_obj_null (N : Nat) (o : List (String × GValue)) : merge false (N + 1) (.obj o) .null = .null := by
  rfl

theorem merge_list_null (N : Nat) (l : List GValue) : merge false (N + 1) (.list l) .null = .null := by
  rfl

theorem merge_list_list (k : Bool) (N : Nat) (a b : List GValue) :
    merge k (N + 1) (.list a) (.list b) = .list (zipMerge (merge k N) a b) := by
  rfl

theorem merge_obj_obj (k : Bool) (N : Nat) (a b : List (String × GValue)) :
    merge k (N + 1) (.obj a) (.obj b) = .obj (b.foldl (fun tm p => insertKV (merge k N) tm p.1 p.2) a) := by
  rfl

def isScalar : GValue → Bool
  | .list _ => false
  | .obj _ => false
  | _ => true

theorem merge_scalar (k : Bool) (N : Nat) (a b : GValue) (h : isScalar a = true) : merge k N a b = a := by
  cases N <;> cases a <;> cases b <;> first | rfl | (simp [isScalar] at h)

theorem merge_ne_null (k : Bool) (N : Nat) (a b : GValue) (ha : a ≠ .null) (hb : b ≠ .null) : merge k N a b ≠ .null := by
  cases N <;> cases a <;> cases b <;> simp_all [merge]

/-- merge of two optional results: a propagating error on either side propagates -/
def mergeO (N : Nat) : Option GValue → Option GValue → Option GValue
  | some a, some b => some (merge false N a b)
  | _, _ => none

theorem mergeO_none_left (N : Nat) (y : Option GValue) : mergeO N none y = none := by
  cases y <;> rfl

theorem mergeO_none_right (N : Nat) (x : Option GValue) : mergeO N x none = none := by
  cases x <;> rfl

theorem mergeO_isSome (N : Nat) (x y : Option GValue) : (mergeO N x y).isSome = (x.isSome && y.isSome) := by
  cases x <;> cases y <;> rfl

/-- how the value for the union of two selection sets relates to the values for the parts -/
def Rel (N : Nat) (x y z : Option GValue) : Prop :=
  z = mergeO N x y ∧ (y = some .null → z = none ∨ z = some .null)

theorem rel_same_scalar (N : Nat) (v : GValue) (h : isScalar v = true) : Rel N (some v) (some v) (some v) := by
  refine ⟨?_, fun h => Or.inr h⟩
  simp [mergeO, merge_scalar _ _ _ _ h]

theorem rel_none (N : Nat) : Rel N none none none := ⟨rfl, fun h => Or.inl rfl⟩

end AGV.Lemmas.ExecStaticMerge
