import Scr.P7

namespace AGV.Lemmas.ExecStaticMerge
open AGV.Core AGV.Model.ExecStatic AGV.Lemmas.ExecStatic AGV.Lemmas.ExecStaticData
open AGV.Spec.Exec (FieldOcc complete execSet group mapIdx serializeLeaf doesApply excluded argValue)

theorem execSet_val_shape (c : AGV.Spec.Exec.Ctx) (f : Nat) (rt : String) (id : Nat) (s : List Sel) (p : List PathSeg)
    (v : GValue) (h : (execSet c f rt id s p).val = some v) : (∃ o, v = GValue.obj o) ∧ 1 ≤ f := by
  cases f with
  | zero => simp [execSet] at h
  | succ f =>
    rw [execSet_succ] at h
    simp only [ite_val] at h
    split at h
    · simp at h
    · simp only [Option.some.injEq] at h
      exact ⟨⟨_, h.symm⟩, by omega⟩

/-- the induction hypothesis on fuel of `execSet_merge` -/
def ExecMerge (c : Model.ExecStatic.Ctx) (f : Nat) : Prop :=
  ∀ (st rt : String) (id : Nat) (a b : List Sel) (path : List PathSeg) (N : Nat),
    IsObj c.S rt → doesApply c.S rt st = true → selsInert c.vars a = true → selsInert c.vars b = true →
    MKP c f st rt (a ++ b) → 4 * f ≤ N →
    (execSet (sc c) f rt id (a ++ b) path).val =
      mergeO N (execSet (sc c) f rt id a path).val (execSet (sc c) f rt id b path).val

theorem mkp_hasFieldG (c : Model.ExecStatic.Ctx) (f : Nat) (st rt : String) (s : List Sel) (h : MKP c (f + 1) st rt s) :
    ∀ k ∈ (Model.ExecStatic.collect c rt (f + 1) st s).map (·.key),
      HasFieldG c rt ((Model.ExecStatic.collect c rt (f + 1) st s).filter (fun o => decide (o.key = k))) := by
  intro k hk
  have hne := filter_key_ne_nil _ k hk
  cases hfl : (Model.ExecStatic.collect c rt (f + 1) st s).filter (fun o => decide (o.key = k)) with
  | nil => exact absurd hfl hne
  | cons o rest =>
    have := h.2 (k, _) ((mem_group _ _).2 ⟨hk, rfl⟩) o rest hfl
    refine ⟨o, rest, rfl, ?_⟩
    rcases this.2 with ht | ⟨fd, hfd, _⟩
    · exact Or.inl ht
    · exact Or.inr ⟨fd, hfd⟩

theorem gVal_merge (c : Model.ExecStatic.Ctx) (H : DataHyps c) (f : Nat) (IH : ExecMerge c f) (rt : String) (id : Nat)
    (path : List PathSeg) (k : String) (oa : FieldOcc) (ra : List FieldOcc) (ob : FieldOcc) (rb : List FieldOcc)
    (hsame : ∀ o' ∈ ra ++ ob :: rb, o'.name = oa.name ∧ o'.args = oa.args)
    (hfield : oa.name = "__typename" ∨ ∃ fd, c.S.field? rt oa.name = some fd ∧ ((ra ++ ob :: rb) = [] ∨ listDepth fd.ty ≤ 3) ∧
        ∀ ty ∈ c.S.possibleTypes fd.ty.base, MKP c f fd.ty.base ty ((oa :: (ra ++ ob :: rb)).map (·.sels)).flatten)
    (hinA : ∀ o ∈ oa :: ra, selsInert c.vars o.sels = true) (hinB : ∀ o ∈ ob :: rb, selsInert c.vars o.sels = true)
    (N : Nat) (hN : 4 * f + 3 ≤ N) :
    gVal c f rt id path k ((oa :: ra) ++ (ob :: rb)) =
      mergeO N (gVal c f rt id path k (oa :: ra)) (gVal c f rt id path k (ob :: rb)) := by
  have hob := hsame ob (by simp)
  by_cases ht : oa.name = "__typename"
  · have ht' : ob.name = "__typename" := hob.1.trans ht
    simp only [List.cons_append, gVal, ht, ht', if_true, mergeO]
    rw [merge_scalar _ _ _ _ rfl]
  · rcases hfield with h | ⟨fd, hfd, hld, hrec⟩
    · exact absurd h ht
    · have ht' : ¬ ob.name = "__typename" := by rw [hob.1]; exact ht
      have hfd' : c.S.field? rt ob.name = some fd := by rw [hob.1]; exact hfd
      have hld' : listDepth fd.ty ≤ 3 := by
        rcases hld with h | h
        · simp at h
        · exact h
      have hrv : fieldRVal c id fd ob = fieldRVal c id fd oa := fieldRVal_congr c id fd oa ob hob.1 hob.2
      have hflat : (((oa :: ra) ++ (ob :: rb)).map (·.sels)).flatten =
          ((oa :: ra).map (·.sels)).flatten ++ ((ob :: rb).map (·.sels)).flatten := by
        rw [List.map_append, List.flatten_append]
      have hinA' : selsInert c.vars ((oa :: ra).map (·.sels)).flatten = true := by
        apply selsInert_flatten
        intro l hl
        simp only [List.mem_map] at hl
        obtain ⟨o, ho, rfl⟩ := hl
        exact hinA o ho
      have hinB' : selsInert c.vars ((ob :: rb).map (·.sels)).flatten = true := by
        apply selsInert_flatten
        intro l hl
        simp only [List.mem_map] at hl
        obtain ⟨o, ho, rfl⟩ := hl
        exact hinB o ho
      have key := complete_merge c.S (execSet (sc c) f) ((oa :: ra).map (·.sels)).flatten ((ob :: rb).map (·.sels)).flatten
        (4 * f) fd.ty.base
        (fun ty id' p v hv => by
          obtain ⟨h1, h2⟩ := execSet_val_shape _ _ _ _ _ _ _ hv
          exact ⟨h1, by omega⟩)
        (fun ty id' p hc => by
          obtain ⟨⟨o, ho⟩, _⟩ := execSet_val_shape _ _ _ _ _ _ _ hc
          simp at ho)
        (fun ty hty id' p N' hN' => by
          obtain ⟨hobj, happ⟩ := H.schema.possible _ _ hty
          apply IH fd.ty.base ty id' _ _ p N' hobj happ hinA' hinB' ?_ hN'
          have := hrec ty hty
          rw [← List.cons_append, hflat] at this
          exact this)
        fd.ty rfl (fieldRVal c id fd oa) (path ++ [.key k]) oa.pos ob.pos oa.pos N (by omega)
      have hl : gVal c f rt id path k ((oa :: ra) ++ (ob :: rb)) =
          (complete c.S (execSet (sc c) f) fd.ty (fieldRVal c id fd oa)
            (((oa :: ra).map (·.sels)).flatten ++ ((ob :: rb).map (·.sels)).flatten) (path ++ [.key k]) oa.pos).val := by
        rw [← hflat]
        simp only [List.cons_append, gVal, ht, hfd, if_false]
      have hx : gVal c f rt id path k (oa :: ra) =
          (complete c.S (execSet (sc c) f) fd.ty (fieldRVal c id fd oa)
            ((oa :: ra).map (·.sels)).flatten (path ++ [.key k]) oa.pos).val := by
        simp only [gVal, ht, hfd, if_false]
      have hy : gVal c f rt id path k (ob :: rb) =
          (complete c.S (execSet (sc c) f) fd.ty (fieldRVal c id fd oa)
            ((ob :: rb).map (·.sels)).flatten (path ++ [.key k]) ob.pos).val := by
        simp only [gVal, ht', hfd', if_false, hrv]
      rw [hl, hx, hy]
      exact key.1

/-- MERGE LEMMA (specification side): executing the union `a ++ b` of two selection sets on an object
    gives the `merge_value` of the two separate executions (or propagates when either does) -/
theorem execSet_merge (c : Model.ExecStatic.Ctx) (H : DataHyps c) : ∀ f, ExecMerge c f := by
  intro f
  induction f with
  | zero =>
    intro st rt id a b path N _ _ _ _ _ _
    simp [execSet, mergeO]
  | succ f ih =>
    intro st rt id a b path N hrt hst hina hinb hmk hN
    obtain ⟨mka, mkb⟩ := mkp_split c (f + 1) st rt a b hmk
    have hinab : selsInert c.vars (a ++ b) = true := by rw [selsInert_append, hina, hinb]; rfl
    rw [execSet_val_char c H f st rt id (a ++ b) path hrt hst hinab hmk.1 (mkp_hasFieldG c f st rt _ hmk),
      execSet_val_char c H f st rt id a path hrt hst hina mka.1 (mkp_hasFieldG c f st rt _ mka),
      execSet_val_char c H f st rt id b path hrt hst hinb mkb.1 (mkp_hasFieldG c f st rt _ mkb)]
    have hgrp := hmk.2
    have hinOa := collect_inert c rt H.frags (f + 1) st a hina
    have hinOb := collect_inert c rt H.frags (f + 1) st b hinb
    rw [collect_append] at hgrp ⊢
    generalize Model.ExecStatic.collect c rt (f + 1) st a = Oa at *
    generalize Model.ExecStatic.collect c rt (f + 1) st b = Ob at *
    obtain ⟨N', rfl⟩ : ∃ N', N = N' + 1 := ⟨N - 1, by omega⟩
    rw [List.map_append, dedup_append]
    have hfc : (dedup (Ob.map (·.key))).filter (fun k => decide (k ∉ Oa.map (·.key))) =
        (dedup (Ob.map (·.key))).filter (fun k => decide (k ∉ dedup (Oa.map (·.key)))) := by
      apply List.filter_congr
      intro k _
      simp [mem_dedup]
    rw [hfc]
    simp only [List.filter_append]
    apply seqObj_merge N' _ _ (dedup_nodup _)
    · -- the key occurs in both parts
      intro k hka hkb
      rw [mem_dedup] at hka hkb
      have hnea := filter_key_ne_nil _ k hka
      have hneb := filter_key_ne_nil _ k hkb
      cases hfa : Oa.filter (fun o => decide (o.key = k)) with
      | nil => exact absurd hfa hnea
      | cons oa ra =>
        cases hfb : Ob.filter (fun o => decide (o.key = k)) with
        | nil => exact absurd hfb hneb
        | cons ob rb =>
          have hg := hgrp (k, (Oa ++ Ob).filter (fun o => decide (o.key = k)))
            ((mem_group _ _).2 ⟨by simp only [List.map_append, List.mem_append]; exact Or.inl hka, rfl⟩)
            oa (ra ++ ob :: rb) (by simp only [List.filter_append, hfa, hfb]; rfl)
          apply gVal_merge c H f ih rt id path k oa ra ob rb hg.1 hg.2 ?_ ?_ N' (by omega)
          · intro o ho
            exact hinOa o (List.mem_filter.1 (by rw [hfa]; exact ho)).1
          · intro o ho
            exact hinOb o (List.mem_filter.1 (by rw [hfb]; exact ho)).1
    · intro k _ hkb
      rw [mem_dedup] at hkb
      have : Ob.filter (fun o => decide (o.key = k)) = [] := by
        rw [List.filter_eq_nil_iff]
        intro o ho hc
        exact hkb (by simp only [List.mem_map]; exact ⟨o, ho, by simpa using hc⟩)
      simp only [this, List.append_nil]
    · intro k _ hka
      rw [mem_dedup] at hka
      have : Oa.filter (fun o => decide (o.key = k)) = [] := by
        rw [List.filter_eq_nil_iff]
        intro o ho hc
        exact hka (by simp only [List.mem_map]; exact ⟨o, ho, by simpa using hc⟩)
      simp only [this, List.nil_append]

end AGV.Lemmas.ExecStaticMerge
