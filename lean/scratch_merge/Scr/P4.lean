import Scr.P3

namespace AGV.Lemmas.ExecStaticMerge
open AGV.Core AGV.Model.ExecStatic AGV.Lemmas.ExecStatic AGV.Lemmas.ExecStaticData
open AGV.Spec.Exec (FieldOcc complete execSet group mapIdx serializeLeaf doesApply excluded argValue)

mutual
/-- structural equality of argument literals (the derived `BEq` of the nested inductive `DValue` is an
    opaque constant for the kernel: nothing can be proved from `a == b`) -/
def dvSame : DValue → DValue → Bool
  | .var a, .var b => decide (a = b)
  | .null, .null => true
  | .int a, .int b => decide (a = b)
  | .float a, .float b => decide (a = b)
  | .str a, .str b => decide (a = b)
  | .bool a, .bool b => decide (a = b)
  | .enum a, .enum b => decide (a = b)
  | .list a, .list b => dvSameL a b
  | .obj a, .obj b => argsSame a b
  | _, _ => false
def dvSameL : List DValue → List DValue → Bool
  | [], [] => true
  | x :: xs, y :: ys => dvSame x y && dvSameL xs ys
  | _, _ => false
/-- the same argument list: same names in the same order with structurally equal values -/
def argsSame : List (String × DValue) → List (String × DValue) → Bool
  | [], [] => true
  | (k, x) :: xs, (l, y) :: ys => decide (k = l) && dvSame x y && argsSame xs ys
  | _, _ => false
end

mutual
theorem dvSame_eq : ∀ (a b : DValue), dvSame a b = true → a = b
  | .var a, .var b, h => by simp [dvSame] at h; rw [h]
  | .null, .null, _ => rfl
  | .int a, .int b, h => by simp [dvSame] at h; rw [h]
  | .float a, .float b, h => by simp [dvSame] at h; rw [h]
  | .str a, .str b, h => by simp [dvSame] at h; rw [h]
  | .bool a, .bool b, h => by simp [dvSame] at h; rw [h]
  | .enum a, .enum b, h => by simp [dvSame] at h; rw [h]
  | .list a, .list b, h => by simp only [dvSame] at h; rw [dvSameL_eq a b h]
  | .obj a, .obj b, h => by simp only [dvSame] at h; rw [argsSame_eq a b h]
  | .var _, .null, h | .var _, .int _, h | .var _, .float _, h | .var _, .str _, h | .var _, .bool _, h
  | .var _, .enum _, h | .var _, .list _, h | .var _, .obj _, h => by simp [dvSame] at h
  | .null, .var _, h | .null, .int _, h | .null, .float _, h | .null, .str _, h | .null, .bool _, h
  | .null, .enum _, h | .null, .list _, h | .null, .obj _, h => by simp [dvSame] at h
  | .int _, .var _, h | .int _, .null, h | .int _, .float _, h | .int _, .str _, h | .int _, .bool _, h
  | .int _, .enum _, h | .int _, .list _, h | .int _, .obj _, h => by simp [dvSame] at h
  | .float _, .var _, h | .float _, .null, h | .float _, .int _, h | .float _, .str _, h | .float _, .bool _, h
  | .float _, .enum _, h | .float _, .list _, h | .float _, .obj _, h => by simp [dvSame] at h
  | .str _, .var _, h | .str _, .null, h | .str _, .int _, h | .str _, .float _, h | .str _, .bool _, h
  | .str _, .enum _, h | .str _, .list _, h | .str _, .obj _, h => by simp [dvSame] at h
  | .bool _, .var _, h | .bool _, .null, h | .bool _, .int _, h | .bool _, .float _, h | .bool _, .str _, h
  | .bool _, .enum _, h | .bool _, .list _, h | .bool _, .obj _, h => by simp [dvSame] at h
  | .enum _, .var _, h | .enum _, .null, h | .enum _, .int _, h | .enum _, .float _, h | .enum _, .str _, h
  | .enum _, .bool _, h | .enum _, .list _, h | .enum _, .obj _, h => by simp [dvSame] at h
  | .list _, .var _, h | .list _, .null, h | .list _, .int _, h | .list _, .float _, h | .list _, .str _, h
  | .list _, .bool _, h | .list _, .enum _, h | .list _, .obj _, h => by simp [dvSame] at h
  | .obj _, .var _, h | .obj _, .null, h | .obj _, .int _, h | .obj _, .float _, h | .obj _, .str _, h
  | .obj _, .bool _, h | .obj _, .enum _, h | .obj _, .list _, h => by simp [dvSame] at h
theorem dvSameL_eq : ∀ (a b : List DValue), dvSameL a b = true → a = b
  | [], [], _ => rfl
  | x :: xs, y :: ys, h => by
    simp only [dvSameL, Bool.and_eq_true] at h
    rw [dvSame_eq x y h.1, dvSameL_eq xs ys h.2]
  | [], _ :: _, h => by simp [dvSameL] at h
  | _ :: _, [], h => by simp [dvSameL] at h
theorem argsSame_eq : ∀ (a b : List (String × DValue)), argsSame a b = true → a = b
  | [], [], _ => rfl
  | (k, x) :: xs, (l, y) :: ys, h => by
    simp only [argsSame, Bool.and_eq_true, decide_eq_true_eq] at h
    rw [h.1.1, dvSame_eq x y h.1.2, argsSame_eq xs ys h.2]
  | [], _ :: _, h => by simp [argsSame] at h
  | _ :: _, [], h => by simp [argsSame] at h
end

example : argsSame [("a", .list [.int 1, .var "v"])] [("a", .list [.int 1, .var "v"])] = true := by decide

end AGV.Lemmas.ExecStaticMerge
