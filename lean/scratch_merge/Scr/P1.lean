import AGV.Lemmas.ExecStaticData

namespace AGV.Lemmas.ExecStaticMerge
open AGV.Core AGV.Model.ExecStatic AGV.Lemmas.ExecStatic AGV.Lemmas.ExecStaticData
open AGV.Spec.Exec (FieldOcc complete execSet group mapIdx serializeLeaf doesApply excluded argValue)

-- ------------------------------------------------------------------ grouping = dedup + filter

/-- keys in order of first occurrence -/
def dedup : List String → List String
  | [] => []
  | k :: ks => k :: (dedup ks).filter (fun x => decide (x ≠ k))

theorem mem_dedup (l : List String) (k : String) : k ∈ dedup l ↔ k ∈ l := by
  induction l with
  | nil => simp [dedup]
  | cons x xs ih =>
    simp only [dedup, List.mem_cons, List.mem_filter, decide_eq_true_eq, ih]
    by_cases h : k = x <;> simp [h]

theorem dedup_nodup (l : List String) : (dedup l).Nodup := by
  induction l with
  | nil => simp [dedup]
  | cons x xs ih =>
    simp only [dedup, List.nodup_cons, List.mem_filter, decide_eq_true_eq]
    exact ⟨fun h => h.2 rfl, List.Nodup.sublist List.filter_sublist ih⟩

theorem dedup_snoc (l : List String) (k : String) :
    dedup (l ++ [k]) = if k ∈ l then dedup l else dedup l ++ [k] := by
  induction l with
  | nil => simp [dedup]
  | cons x xs ih =>
    simp only [List.cons_append, dedup, ih, List.mem_cons]
    by_cases hx : k = x
    · subst hx
      by_cases hm : k ∈ xs <;> simp [hm, List.filter_append]
    · by_cases hm : k ∈ xs
      · simp [hm, hx]
      · simp [hm, hx, List.filter_append]

theorem dedup_append (a b : List String) :
    dedup (a ++ b) = dedup a ++ (dedup b).filter (fun k => decide (k ∉ a)) := by
  induction a with
  | nil =>
    simp only [dedup, List.nil_append, List.not_mem_nil, not_false_eq_true, decide_true]
    exact (List.filter_eq_self.2 (fun _ _ => rfl)).symm
  | cons x xs ih =>
    simp only [List.cons_append, dedup, ih, List.filter_append, List.filter_filter, List.cons.injEq, true_and,
      List.append_cancel_left_eq]
    apply List.filter_congr
    intro k _
    by_cases h1 : k = x <;> simp [h1]

/-- generic "group by key in order of first occurrence" fold (both `Spec.Exec.group` and `groupKV`) -/
def groupG {α β : Type} (key : α → String) (val : α → β) (l : List α) (gs : List (String × List β)) :
    List (String × List β) :=
  l.foldl (fun gs o =>
    if gs.any (·.1 = key o) then gs.map (fun g => if g.1 = key o then (g.1, g.2 ++ [val o]) else g)
    else gs ++ [(key o, [val o])]) gs

def charG {α β : Type} (key : α → String) (val : α → β) (l : List α) : List (String × List β) :=
  (dedup (l.map key)).map (fun k => (k, (l.filter (fun o => decide (key o = k))).map val))

theorem groupG_char {α β : Type} (key : α → String) (val : α → β) (l : List α) :
    ∀ pre : List α, groupG key val l (charG key val pre) = charG key val (pre ++ l) := by
  induction l with
  | nil => intro pre; simp [groupG]
  | cons o os ih =>
    intro pre
    have hstep : (if (charG key val pre).any (·.1 = key o) then (charG key val pre).map (fun g => if g.1 = key o then (g.1, g.2 ++ [val o]) else g)
        else charG key val pre ++ [(key o, [val o])]) = charG key val (pre ++ [o]) := by
      have hany : (charG key val pre).any (·.1 = key o) = decide (key o ∈ pre.map key) := by
        rw [Bool.eq_iff_iff]
        simp only [charG, List.any_map, List.any_eq_true, Function.comp, decide_eq_true_eq]
        constructor
        · rintro ⟨k, hk, rfl⟩; exact (mem_dedup _ _).1 hk
        · intro h; exact ⟨_, (mem_dedup _ _).2 h, rfl⟩
      rw [hany]
      unfold charG
      rw [List.map_append, List.map_singleton, dedup_snoc]
      by_cases hm : key o ∈ pre.map key
      · simp only [hm, decide_true, if_true, List.map_map]
        apply List.map_congr_left
        intro k _
        by_cases hk : k = key o
        · subst hk; simp [List.filter_append]
        · have hk' : ¬ key o = k := fun e => hk e.symm
          simp [List.filter_append, hk, hk']
      · simp only [hm, decide_false, Bool.false_eq_true, if_false, List.map_append, List.map_singleton]
        congr 1
        · apply List.map_congr_left
          intro k hk
          have : ¬ key o = k := by
            intro e; subst e; exact hm ((mem_dedup _ _).1 hk)
          simp [List.filter_append, this]
        · have : pre.filter (fun x => decide (key x = key o)) = [] := by
            rw [List.filter_eq_nil_iff]
            intro x hx
            simp only [decide_eq_true_eq]
            intro e
            exact hm (by rw [← e]; exact List.mem_map_of_mem hx)
          simp [List.filter_append, this]
    have := ih (pre ++ [o])
    rw [← hstep] at this
    simpa [groupG] using this

theorem group_char (occs : List FieldOcc) :
    group occs = (dedup (occs.map (·.key))).map (fun k => (k, occs.filter (fun o => decide (o.key = k)))) := by
  have h := groupG_char (fun o : FieldOcc => o.key) id occs []
  simp only [charG, List.map_nil, dedup, List.nil_append, List.map_id] at h
  rw [← h]
  rfl

theorem groupKV_char (kvs : List (String × GValue)) :
    groupKV kvs = (dedup (kvs.map (·.1))).map (fun k => (k, (kvs.filter (fun p => decide (p.1 = k))).map (·.2))) := by
  have h := groupG_char (fun p : String × GValue => p.1) (fun p => p.2) kvs []
  simp only [charG, List.map_nil, dedup, List.nil_append] at h
  rw [← h]
  rfl

end AGV.Lemmas.ExecStaticMerge
