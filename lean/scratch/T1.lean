import AGV.Model.Sched
open AGV.Core AGV.Model.Sched AGV.Model

def p1 : Pos := ⟨1, 12⟩
def p2 : Pos := ⟨1, 16⟩
def S0 : Schema := { query := "Query", mutation := some "Mutation", types := [
  { name := "Query", kind := .object, fields := [{ name := "x", ty := .named "O", args := [] }] },
  { name := "Mutation", kind := .object, fields := [{ name := "inc", ty := .named "Int", args := [] }] },
  { name := "O", kind := .object, fields := [{ name := "a", ty := .named "Int", args := [] }, { name := "b", ty := .named "Int", args := [] }] },
  { name := "Int", kind := .scalar }] }
def w0 : World := { entries := [((0, "inc"), .leaf (.int 1)), ((0, "x"), .obj "O" 1), ((1, "a"), .fail "boom"), ((1, "b"), .fail "boom")] }
def dmut : Doc := { ops := [{ ty := .mutation, name := none, vars := [], dirs := [], sels := [Sel.field none "inc" [] [] [] p1, Sel.field none "inc" [] [] [] p2] }], frags := [] }
def g0 : Gate := fun _ _ _ => 0

theorem w1 : (run ExecStatic.Defects.none true g0 S0 dmut none [] w0 5).starts = [([], "inc"), ([], "inc")] := by rfl
theorem w2 : (run ExecStatic.Defects.none false g0 S0 dmut none [] w0 5).starts = [([], "inc")] := by rfl
#eval (run ExecStatic.Defects.none false g0 S0 dmut none [] w0 5).val
