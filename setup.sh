#!/bin/sh
# Builds the framework from files on disk only (offline).  Every claimed property
# (props/Cnn.json) gets its theorem module, its driver and its harness binary built; a property
# whose parts fail to build does not stop the others (its own check will report it).
cd "$(dirname "$0")"
export CARGO_NET_OFFLINE=true
python3 tools/genlake.py
[ -f srcfacts/gen.py ] && python3 srcfacts/gen.py all
cp /repo/Cargo.lock harness/core/Cargo.lock 2>/dev/null
[ -d harness/http ] && cp /repo/Cargo.lock harness/http/Cargo.lock 2>/dev/null
(cd lean && lake build)
for f in props/C*.json; do
  id=$(basename "$f" .json)
  python3 - "$f" <<'PY' > work_targets.$$ 2>/dev/null
import json,sys
c=json.load(open(sys.argv[1]))
print(" ".join(sorted({r["driver"] for r in c["runs"]})))
print(" ".join(sorted({r["bin"] for r in c["runs"] if r.get("crate") in (None, "core")})))
print(" ".join(sorted({r["crate"] + "/" + r["bin"] for r in c["runs"] if r.get("crate") not in (None, "core")})))
PY
  drivers=$(sed -n 1p work_targets.$$); bins=$(sed -n 2p work_targets.$$); xbins=$(sed -n 3p work_targets.$$); rm -f work_targets.$$
  (cd lean && lake build AGV.Props.$id $drivers) || echo "setup: lean targets of $id failed"
  for b in $bins; do (cd harness/core && cargo build --offline --bin $b) || echo "setup: harness bin $b failed"; done
  # run entries with "crate": "<name>" are built in harness/<name> (C35: harness/http)
  for cb in $xbins; do (cd "harness/${cb%%/*}" && cargo build --offline --bin "${cb#*/}") || echo "setup: harness bin $cb failed"; done
done
exit 0
