#!/bin/sh
# Builds the framework from files on disk only (offline).
set -e
cd "$(dirname "$0")"
export CARGO_NET_OFFLINE=true
python3 tools/genlake.py
[ -f srcfacts/gen.py ] && python3 srcfacts/gen.py all || true
(cd lean && lake build)
cp /repo/Cargo.lock harness/core/Cargo.lock 2>/dev/null || true
(cd harness/core && cargo build --offline --bins)
